"""C20 harness, third binding: real threads on FRESH classes and on SHARED compiled methods, 1 us switch interval,
systematic yields inside every `context_setter` block (the place where visitors change their own state).  No model
of the individual accesses here: each call has a sequential meaning (its result in one thread), and the observation is
that every concurrent call returns exactly that."""
from __future__ import annotations

import sys
import threading
import time
from dataclasses import dataclass, field, make_dataclass
from typing import Any, List, Tuple


def line_yielder():
    """A trace function for worker threads: the real `context_setter` (where visitors save and restore their own state)
    runs unmodified, but the thread lets the others run before every LINE of it -- in particular between the clear and
    the update that restore the saved state."""
    import apischema.utils as U

    code = U.context_setter.__wrapped__.__code__

    def local(frame, event, arg):
        if event == "line":
            time.sleep(0.00005)
        return local

    def glob(frame, event, arg):
        return local if frame.f_code is code else None

    return glob


def fresh_flat(tag: str):
    from apischema.metadata import flatten

    inner2 = make_dataclass(f"In2{tag}", [("z", int)])
    inner = make_dataclass(f"In{tag}", [("x", int), ("deep", inner2, field(metadata=flatten)), ("y", int, field(default=0))])
    outer = make_dataclass(f"Out{tag}", [("a", int), ("inner", inner, field(metadata=flatten))])
    return outer, {"a": 1, "x": 2, "z": 3}, outer(1, inner(2, inner2(3), 0))


def first_use_storm(n_threads: int, n_classes: int, tag: str) -> List[str]:
    """Concurrent FIRST deserializations / serializations of fresh classes with (nested) flattened fields."""
    from apischema import deserialize, serialize

    work = [[fresh_flat(f"{tag}_{t}_{k}") for k in range(n_classes)] for t in range(n_threads)]
    problems: List[str] = []
    barrier = threading.Barrier(n_threads)

    def worker(items):
        sys.settrace(line_yielder())
        barrier.wait(30)
        for cls, data, expected in items:
            try:
                res = deserialize(cls, data)
                back = serialize(cls, res)
            except BaseException as exc:  # noqa
                problems.append(f"first use of {cls.__name__}: raised {type(exc).__name__}: {exc}")
                continue
            if res != expected or back != data | {"y": 0}:
                problems.append(f"first use of {cls.__name__}: deserialize gives {res!r} (expected {expected!r}), serialize back {back!r}")

    old = sys.getswitchinterval()
    sys.setswitchinterval(1e-6)
    try:
        ths = [threading.Thread(target=worker, args=(items,), daemon=True) for items in work]
        for th in ths:
            th.start()
        for th in ths:
            th.join(120)
    finally:
        sys.setswitchinterval(old)
    # ... and a later, sequential first use must not be affected by what the threads left behind
    cls, data, expected = fresh_flat(f"{tag}_after")
    try:
        res = deserialize(cls, data)
        if res != expected:
            problems.append(f"sequential first use AFTER the threads: {res!r} instead of {expected!r}")
    except BaseException as exc:  # noqa
        problems.append(f"sequential first use AFTER the threads raised {type(exc).__name__}: {exc}")
    return problems


def steady_storm(n_threads: int, iters: int, tag: str) -> Tuple[int, List[str]]:
    """Concurrent calls through SHARED, already compiled methods, every thread with data of its own: discriminated
    unions (tagged and class-level), a flattened class, a class with additional properties, a recursive class."""
    from typing import Annotated, Dict, Optional, Union

    from apischema import deserialization_method, deserialize, discriminator, serialization_method, serialize
    from apischema.metadata import flatten, properties

    Cat = make_dataclass(f"Cat{tag}", [("n", int), ("name", str, field(default="c"))])
    Dog = make_dataclass(f"Dog{tag}", [("n", int), ("good", bool, field(default=True))])
    U = Annotated[Union[Cat, Dog], discriminator("type")]
    Pos = make_dataclass(f"Pos{tag}", [("x", int), ("y", int, field(default=0))])
    Sh = make_dataclass(f"Sh{tag}", [("name", str), ("pos", Pos, field(metadata=flatten)),
                                     ("extra", Dict[str, int], field(default_factory=dict, metadata=properties))])
    import types

    ndmod = types.ModuleType(f"verifstorm_{tag}")
    sys.modules[ndmod.__name__] = ndmod
    exec(f"from dataclasses import dataclass\nfrom typing import Optional\n@dataclass\nclass Nd{tag}:\n    v: int\n    nxt: Optional['Nd{tag}'] = None\n",
         ndmod.__dict__)
    Nd = getattr(ndmod, f"Nd{tag}")
    try:
        d_u, d_l, d_sh, d_nd = deserialization_method(U), deserialization_method(List[U]), deserialization_method(Sh), deserialization_method(Nd)
        s_u, s_sh = serialization_method(U), serialization_method(Sh)
    except Exception as exc:
        return 0, [f"compiling the shared methods (one thread, after the first-use storm) raised {type(exc).__name__}: {exc}"]
    names = {Cat: Cat.__name__, Dog: Dog.__name__}
    problems: List[str] = []
    barrier = threading.Barrier(n_threads)
    count = [0]

    def worker(i: int):
        barrier.wait(30)
        for j in range(iters):
            n = i * 1000000 + j
            cls = Cat if (i + j) % 2 else Dog
            try:
                got = d_u({"type": names[cls], "n": n})
                want: Any = cls(n)
                if got != want:
                    problems.append(f"thread {i}: discriminated union gives {got!r}, expected {want!r}")
                got = d_l([{"type": names[cls], "n": n}, {"type": names[Cat], "n": n + 1}])
                if got != [cls(n), Cat(n + 1)]:
                    problems.append(f"thread {i}: list of discriminated unions gives {got!r}")
                got = s_u(cls(n))
                if got.get("n") != n or got.get("type") != names[cls]:
                    problems.append(f"thread {i}: serialized discriminated union {got!r}, expected n={n} type={names[cls]}")
                got = d_sh({"name": str(n), "x": n, "k": n})
                if got != Sh(str(n), Pos(n, 0), {"k": n}):
                    problems.append(f"thread {i}: flattened / properties class gives {got!r}")
                got = s_sh(Sh(str(n), Pos(n, 1), {"k": n}))
                if got != {"name": str(n), "x": n, "y": 1, "k": n}:
                    problems.append(f"thread {i}: serialized flattened class {got!r}")
                got = d_nd({"v": n, "nxt": {"v": n + 1}})
                if got != Nd(n, Nd(n + 1)):
                    problems.append(f"thread {i}: recursive class gives {got!r}")
            except BaseException as exc:  # noqa
                problems.append(f"thread {i}: raised {type(exc).__name__}: {exc}")
            if len(problems) > 20:
                return
        count[0] += iters * 6

    old = sys.getswitchinterval()
    sys.setswitchinterval(1e-6)
    try:
        ths = [threading.Thread(target=worker, args=(i,), daemon=True) for i in range(n_threads)]
        for th in ths:
            th.start()
        for th in ths:
            th.join(300)
    finally:
        sys.setswitchinterval(old)
    return count[0], problems
