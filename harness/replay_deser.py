"""spec -> code: replay the cases TLC enumerated (MC_Deser with EMIT=1) in the real code."""
from __future__ import annotations

import json
from typing import Any, Callable, Dict, List, Tuple

from . import bridge, compare, record


class Universe:
    """The class table / enums / string table TLC printed in its header line, built for real."""

    def __init__(self, header: dict, types: List[dict]):
        self.header = header
        self.classes = header["classes"]
        self.enums = header["enums"]
        self.ctx = bridge.build_ctx(self.classes, self.enums, types)
        self._types: Dict[str, Any] = {}
        self._aliasers: Dict[str, Callable[[str], str]] = {}

    def check_string_table(self) -> List[str]:
        """The attributes the spec's universe assumes for its strings must be Python's own."""
        bad = []
        for s, attrs in self.header.get("senv", {}).items():
            real = bridge.str_attrs(s)
            got = {"int": list(attrs["int"]), "float": list(attrs["float"]), "boolw": attrs["boolw"],
                   "pats": sorted(attrs["pats"])}
            if got != real:
                bad.append(f"{s!r}: spec {got} python {real}")
        return bad

    def type(self, T: dict) -> Any:
        key = json.dumps(T, sort_keys=True)
        if key not in self._types:
            self._types[key] = self.ctx.type(T)
        return self._types[key]

    def aliaser(self, name: str):
        if name == "id":
            return None
        if name not in self._aliasers:
            table = {a: b for a, b in self.header["aliasers"][name]}
            self._aliasers[name] = lambda s, table=table: table.get(s, s)
        return self._aliasers[name]


def kwargs_of(u: Universe, opts: dict) -> dict:
    kw: Dict[str, Any] = {"additional_properties": opts["addl"], "fall_back_on_default": opts["fbd"]}
    if opts.get("coerce"):
        kw["coerce"] = True
    al = u.aliaser(opts.get("aliname", "id"))
    if al is not None:
        kw["aliaser"] = al
    return kw


def parse_emitted(prints: List[str]) -> Tuple[dict, List[dict]]:
    header, cases = None, []
    for p in prints:
        if not p.startswith('"'):
            continue
        obj = json.loads(json.loads(p))
        if obj.get("header"):
            header = obj
        else:
            cases.append(obj)
    if header is None:
        raise RuntimeError("TLC did not print the universe header")
    return header, cases


def replay(header: dict, cases: List[dict], custom_coercer=None):
    """Yields (case, out, verdict).  With `custom_coercer`, only the strict cases are replayed, with
    that coercer passed as `coerce=`: the expectation is the strict one."""
    if custom_coercer is not None:
        cases = [c for c in cases if not c["opts"].get("coerce")]
    u = Universe(header, [c["type"] for c in cases])
    bad = u.check_string_table()
    if bad:
        raise RuntimeError("string attribute table of the spec disagrees with Python: " + "; ".join(bad[:5]))
    import apischema.cache

    # cases are grouped by type and the method cache is reset between types: Union[A, B] and
    # Union[B, A] are equal and hash-equal, so they share one cache entry (the history
    # dependence that follows is the business of C09, not of the per-type properties)
    keyed = sorted(cases, key=lambda c: json.dumps(c["type"], sort_keys=True))
    last = None
    for c in keyed:
        tkey = json.dumps(c["type"], sort_keys=True)
        if tkey != last:
            apischema.cache.reset()
            clear_typing_caches()
            u._types.clear()
            last = tkey
        tp = u.type(c["type"])
        data = bridge.dec_data(c["data"])
        kw = kwargs_of(u, c["opts"])
        if custom_coercer is not None:
            kw["coerce"] = custom_coercer
        out = record.run_deserialize(u.ctx, tp, data, kw)
        yield c, out, compare.deser_verdict(c["expect"], out, c.get("ambig", False),
                                            dups_ok=has_union(c["type"], u.classes))


def clear_typing_caches():
    """typing memoises List[X] by *equality* of X, and Union[int, float] == Union[float, int]:
    without this List[Union[float, int]] evaluated after List[Union[int, float]] IS the latter."""
    import typing

    for cleanup in getattr(typing, "_cleanups", ()):
        cleanup()


def has_union(T: Any, classes: dict, seen: frozenset = frozenset()) -> bool:
    """Errors of every alternative of a union are merged, so equal messages may repeat."""
    if isinstance(T, dict):
        if T.get("k") in ("union", "dunion"):
            return True
        if T.get("k") == "obj":
            if T["cls"] in seen:
                return False
            return any(has_union(f["type"], classes, seen | {T["cls"]}) for f in classes[T["cls"]]["fields"])
        return any(has_union(v, classes, seen) for v in T.values())
    if isinstance(T, list):
        return any(has_union(v, classes, seen) for v in T)
    return False
