"""code -> spec driver for deserialization: random class tables / types / data (beyond the
exhaustive universes), real `deserialize` calls recorded as events, validated by TLC against
the reference semantics (spec/trace/Trace_Deser.tla)."""
from __future__ import annotations

import json
import os
import random
from typing import Any, Dict, List, Tuple

from . import bridge, gen, record, tlc


def make_events(seed: int, n_ctx: int, per_ctx: int, *, coerce: bool = False, exotic: bool = False,
                depth_choices=(1, 2, 2, 3)) -> Tuple[List[dict], List[dict]]:
    import apischema.cache

    rng = random.Random(seed)
    ctxs: List[dict] = []
    events: List[dict] = []
    eid = 0
    for _ in range(n_ctx):
        g = gen.Gen(rng)
        T = g.gen_type(rng.choice(depth_choices))
        try:
            ctx = bridge.build_ctx(g.classes, g.enums, [T])
            tp = ctx.type(T)
        except Exception as exc:  # a generator slip, not a verdict
            raise RuntimeError(f"driver could not build {json.dumps(T)}: {exc!r}")
        apischema.cache.reset()
        # typing caches List[Union[a, b]] by equality: a type built earlier with the alternatives in the other
        # order would be handed back, and under coercion the order of the alternatives decides the result
        from . import replay_deser

        replay_deser.clear_typing_caches()
        tp = ctx.type(T)
        datas = [g.gen_data(T) for _ in range(per_ctx)]
        if exotic:
            datas = [plant_exotic(rng, d) if rng.random() < 0.6 else d for d in datas]
        opts = {"addl": rng.random() < 0.25, "fbd": rng.random() < 0.25, "coerce": coerce and rng.random() < 0.7, "impl": False, "dev": [], "setuniq": False,
                "ali": []}
        senv = gen.senv_for(T, g.classes, g.enums, datas)
        ctxs.append({"C": g.classes, "En": g.enums, "O": opts, "S": senv})
        kwargs: Dict[str, Any] = {"additional_properties": opts["addl"], "fall_back_on_default": opts["fbd"]}
        if opts["coerce"]:
            kwargs["coerce"] = True
        if exotic:
            kwargs["no_copy"] = rng.random() < 0.5
        for d in datas:
            eid += 1
            out = record.run_deserialize(ctx, tp, bridge.dec_data(d), kwargs)
            if has_py(d):
                out["v"] = {"k": "unencodable"}    # outcome class only (and results may be huge)
            events.append({"id": eid, "cx": len(ctxs), "type": T, "cons": [], "data": d, "out": out})
    return ctxs, events


def has_py(d: dict) -> bool:
    if d["k"] == "py":
        return True
    if d["k"] == "arr":
        return any(has_py(x) for x in d["a"])
    if d["k"] == "obj":
        return any(has_py(v) for _, v in d["o"])
    return False


def plant_exotic(rng: random.Random, d: dict) -> dict:
    """Replace one position of the datum by a non JSON-shaped Python object (C03)."""
    kind = rng.choice(bridge.EXOTIC_KINDS)
    py = {"k": "py", "c": kind}
    if d["k"] == "arr" and d["a"] and rng.random() < 0.7:
        a = list(d["a"])
        i = rng.randrange(len(a))
        a[i] = plant_exotic(rng, a[i])
        return {"k": "arr", "a": a}
    if d["k"] == "obj" and d["o"] and rng.random() < 0.7:
        o = [list(p) for p in d["o"]]
        i = rng.randrange(len(o))
        o[i][1] = plant_exotic(rng, o[i][1])
        return {"k": "obj", "o": o}
    return py


def validate(ctxs: List[dict], events: List[dict], workdir: str, expect_dump: bool = False):
    """Run the TLC trace spec; returns (tlc result, {event id: clause})."""
    path = os.path.join(workdir, "trace_deser.json")
    with open(path, "w") as fh:
        json.dump({"ctxs": ctxs, "events": events}, fh)
    cfg = "INIT Init\nNEXT Next\nPOSTCONDITION AllConsumed\nCHECK_DEADLOCK FALSE\n"
    res = tlc.run_tlc("Trace_Deser", cfg, workers=1,
                      env={"TRACE_FILE": path, "TRACE_EXPECT": "1" if expect_dump else "0"},
                      timeout_s=3600)
    mism: Dict[int, str] = {}
    expects: Dict[int, str] = {}
    for p in res.prints:
        if p.startswith('<<"MISMATCH"'):
            parts = [x.strip(' "<>') for x in p.split(",")]
            mism[int(parts[1])] = parts[2]
        elif p.startswith('<<"EXPECT"'):
            i = int(p.split(",")[1])
            expects[i] = p
    os.remove(path)
    return res, mism, expects
