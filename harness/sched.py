"""C20 harness: an instrumented recursion cache whose every operation can (a) block on a baton
until a schedule grants it -- spec -> code replay of TLC-generated interleavings -- and (b) be
logged with a sequence number taken under the lock that performs it -- code -> spec traces.

No source hook: `apischema.recursion.recursion_cache`, `is_recursive` and `_recursion_lock`
are module globals looked up at call time and are replaced from here."""
from __future__ import annotations

import sys
import threading
import time
from typing import Any, Callable, Dict, List, Optional, Tuple


class Controller:
    """Serialises and (optionally) schedules the operations of worker threads."""

    def __init__(self, keymap: Dict[Any, str], schedule: Optional[List[Tuple[str, str, str]]] = None,
                 grant_timeout: float = 0.03):
        self.keymap = keymap
        self.schedule = schedule            # list of (thread, op, key) or None (free running)
        self.free = schedule is None
        self.names: Dict[int, str] = {}     # thread ident -> name
        self.mutex = threading.Lock()       # protects log + the dict operation itself
        self.log: List[dict] = []
        self.seq = 0
        self.cv = threading.Condition()
        self.waiting: Dict[str, Tuple[str, str]] = {}   # thread -> (op, key) announced
        self.granted: Optional[str] = None
        self.finished: set = set()
        self.pos = 0
        self.status = "following"           # following | infeasible | diverged | completed
        self.grant_timeout = grant_timeout
        self.reordered = False
        self.tls = threading.local()        # .mute > 0: accesses of this thread are performed but not logged

    # ---- naming
    def key_name(self, key: Any) -> str:
        try:
            tp, conv = key
            if conv is None and tp in self.keymap:
                return self.keymap[tp]
        except Exception:
            pass
        return "?" + repr(key)[:60]

    def me(self) -> Optional[str]:
        return self.names.get(threading.get_ident())

    # ---- called by worker threads around every shared access
    def access(self, op: str, key: str, perform: Callable[[], Any], val_of: Callable[[Any], str]) -> Any:
        t = self.me()
        if t is None or getattr(self.tls, "mute", 0):
            return perform()
        if not self.free:
            self._wait_for_grant(t, op, key)
        with self.mutex:
            try:
                res = perform()
            except KeyError:
                self.seq += 1
                self.log.append({"seq": self.seq, "t": t, "op": op, "key": key, "val": "none"})
                raise
            self.seq += 1
            self.log.append({"seq": self.seq, "t": t, "op": op, "key": key, "val": val_of(res)})
        return res

    def event(self, op: str, key: str = "", val: str = ""):
        t = self.me()
        if t is None or getattr(self.tls, "mute", 0):
            return
        with self.mutex:
            self.seq += 1
            self.log.append({"seq": self.seq, "t": t, "op": op, "key": key, "val": val})

    def _wait_for_grant(self, t: str, op: str, key: str):
        with self.cv:
            self.waiting[t] = (op, key)
            self.cv.notify_all()
            while not self.free and self.granted != t:
                self.cv.wait(0.5)
            self.waiting.pop(t, None)
            if self.granted == t:
                self.granted = None
            self.cv.notify_all()

    def _find_reorder(self, sched, t: str, announced):
        if announced[0] != "set" or sched[self.pos][1] != "set":
            return None
        for j in range(self.pos + 1, len(sched)):
            if sched[j][0] != t:
                continue
            if sched[j][1] != "set":
                return None
            if (sched[j][1], sched[j][2]) == announced:
                return j
        return None

    def thread_done(self, t: str):
        with self.cv:
            self.finished.add(t)
            self.cv.notify_all()

    # ---- the scheduler (runs in the main thread)
    def drive(self, threads: List[str]):
        if self.free:
            return
        sched = self.schedule or []
        while self.pos < len(sched):
            t, op, key = sched[self.pos]
            deadline = time.time() + self.grant_timeout
            with self.cv:
                while t not in self.waiting and t not in self.finished and time.time() < deadline:
                    self.cv.wait(0.002)
                if t not in self.waiting:
                    # blocked on something the schedule does not control (the analysis lock) or
                    # already finished: this interleaving is not feasible in the code
                    self.status = "infeasible"
                    break
                if self.waiting[t] != (op, key):
                    # the write loop iterates a Python set: the code may write the keys of one
                    # loop in another order than TLC chose -- reorder the schedule accordingly
                    j = self._find_reorder(sched, t, self.waiting[t])
                    if j is None:
                        self.status = "diverged"
                        break
                    sched[self.pos], sched[j] = sched[j], sched[self.pos]
                    self.reordered = True
                self.granted = t
                self.cv.notify_all()
                while self.granted == t and not self.free:
                    self.cv.wait(0.5)
            self.pos += 1
        else:
            self.status = "completed"
        with self.cv:
            self.free = True
            self.cv.notify_all()


class SchedDict(dict):
    """Drop-in recursion cache.  `in`, `[]=` and `[]` are the accesses the model names."""

    def __init__(self, ctl: Controller):
        super().__init__()
        self.ctl = ctl

    def __contains__(self, key):
        return self.ctl.access("contains", self.ctl.key_name(key), lambda: dict.__contains__(self, key),
                               lambda r: "in" if r else "out")

    def get(self, key, default=None):
        return self.ctl.access("lookup", self.ctl.key_name(key), lambda: dict.get(self, key, default),
                               lambda r: "none" if r is None else ("T" if r else "F"))

    def __setitem__(self, key, value):
        return self.ctl.access("set", self.ctl.key_name(key), lambda: dict.__setitem__(self, key, value),
                               lambda r: "T" if value else "F")

    def __getitem__(self, key):
        return self.ctl.access("get", self.ctl.key_name(key), lambda: dict.__getitem__(self, key),
                               lambda r: "T" if r else "F")


class LoggingLock:
    def __init__(self, ctl: Controller, inner):
        self.ctl, self.inner = ctl, inner

    def __enter__(self):
        self.inner.__enter__()
        self.ctl.event("acquire")
        return self

    def __exit__(self, *exc):
        try:
            self.ctl.event("release")       # may itself fail (RecursionError near the stack limit)
        finally:
            return self.inner.__exit__(*exc)


class Installed:
    """Context manager installing the instrumented cache / is_recursive / lock."""

    def __init__(self, ctl: Controller):
        self.ctl = ctl

    def __enter__(self):
        import apischema.cache
        import apischema.recursion as R

        apischema.cache.reset()
        self.R = R
        self.saved = {k: getattr(R, k) for k in ("recursion_cache", "is_recursive") if hasattr(R, k)}
        self.had_lock = hasattr(R, "_recursion_lock")
        if self.had_lock:
            self.saved["_recursion_lock"] = R._recursion_lock
            R._recursion_lock = LoggingLock(self.ctl, R._recursion_lock)
        caches: Dict[type, SchedDict] = {}
        ctl = self.ctl

        # same memoisation as the real `recursion_cache` (apischema.cache.cache = lru_cache),
        # so that its own first-call behaviour under concurrency is kept
        @apischema.cache.cache
        def recursion_cache(checker_cls):
            d = SchedDict(ctl)
            caches[checker_cls] = d     # the last one created is the one the lru cache keeps
            return d

        self.cached_fn = recursion_cache

        inner = self.saved["is_recursive"].__wrapped__   # the uncached function

        def is_recursive(tp, conversion, default_conversion, checker_cls):
            if getattr(ctl, "only_checker", None) not in (None, checker_cls.__name__):
                # the model describes ONE cache: analyses of the other checker run unlogged
                ctl.tls.mute = getattr(ctl.tls, "mute", 0) + 1
                try:
                    return inner(tp, conversion, default_conversion, checker_cls)
                finally:
                    ctl.tls.mute -= 1
            ctl.event("call", ctl.key_name((tp, conversion)), checker_cls.__name__)
            try:
                res = inner(tp, conversion, default_conversion, checker_cls)
            except BaseException as exc:
                ctl.event("ret", ctl.key_name((tp, conversion)), type(exc).__name__)
                raise
            ctl.event("ret", ctl.key_name((tp, conversion)), "T" if res else "F")
            return res

        R.recursion_cache = recursion_cache
        R.is_recursive = is_recursive
        self.caches = caches
        # systematic yields at lazy initialisations: the closure of every RecMethod created while
        # installed lets the other threads run before and after the (long) compilation it performs
        self.rec_patches = []
        if getattr(ctl, "yield_lazy", False):
            import time

            import apischema.deserialization.methods as DM
            import apischema.serialization.methods as SM

            for mod in (DM, SM):
                cls = mod.RecMethod
                orig_post = cls.__post_init__

                def post(self_, _orig=orig_post):
                    _orig(self_)
                    inner_lazy = self_.lazy

                    def yielding_lazy():
                        time.sleep(0.0005)
                        res = inner_lazy()
                        time.sleep(0.0005)
                        return res

                    self_.lazy = yielding_lazy

                cls.__post_init__ = post
                self.rec_patches.append((cls, orig_post))
            # ... and around the compilation of every object type (first use of a class by a visitor)
            import apischema.deserialization as DV
            import apischema.serialization as SV

            self.obj_patches = []
            import apischema.json_schema.refs as JR
            import apischema.json_schema.schema as JS

            for vis in (DV.DeserializationMethodVisitor, SV.SerializationMethodVisitor, JR.RefsExtractor, JS.SchemaBuilder):
                orig_obj = vis.object

                def obj(self_, tp, fields, _orig=orig_obj):
                    time.sleep(0.0005)
                    res = _orig(self_, tp, fields)
                    time.sleep(0.0005)
                    return res

                vis.object = obj
                self.obj_patches.append((vis, orig_obj))
        return self

    def __exit__(self, *exc):
        import apischema.cache

        for cls, orig_post in self.rec_patches:
            cls.__post_init__ = orig_post
        for vis, orig_obj in getattr(self, "obj_patches", []):
            vis.object = orig_obj
        for k, v in self.saved.items():
            setattr(self.R, k, v)
        if self.cached_fn in apischema.cache._cached:
            apischema.cache._cached.remove(self.cached_fn)
        apischema.cache.reset()
        return False


def run_threads(ctl: Controller, bodies: Dict[str, Callable[[], Any]], switch_interval: Optional[float] = None):
    """Run one body per named thread under the controller; returns {thread: ("ok", value) | ("exc", name)}."""
    results: Dict[str, Tuple[str, Any]] = {}
    barrier = threading.Barrier(len(bodies) + 1)

    def runner(name: str, body):
        ctl.names[threading.get_ident()] = name
        barrier.wait(60)
        try:
            results[name] = ("ok", body())
        except BaseException as exc:  # noqa
            results[name] = ("exc", type(exc).__name__)
        finally:
            ctl.thread_done(name)

    old = sys.getswitchinterval()
    if switch_interval:
        sys.setswitchinterval(switch_interval)
    try:
        ths = [threading.Thread(target=runner, args=(n, b), daemon=True) for n, b in bodies.items()]
        for th in ths:
            th.start()
        barrier.wait(60)
        ctl.drive(list(bodies))
        for th in ths:
            th.join(20)
            if th.is_alive():
                raise RuntimeError("worker thread did not terminate (deadlock or livelock)")
    finally:
        sys.setswitchinterval(old)
    return results
