"""Python-side comparison of a real outcome with the outcome predicted by the specification
(used by the spec -> code replay; the code -> spec direction compares inside TLC)."""
from __future__ import annotations

from typing import Any, List, Tuple

from . import bridge


def _num_norm(v: Any) -> Any:
    if isinstance(v, dict):
        if v.get("k") == "int":
            return {"k": "float", "h": 2 * v["n"]}
        return {k: _num_norm(x) for k, x in v.items()}
    if isinstance(v, list):
        return [_num_norm(x) for x in v]
    return v


def tla_value(v: Any) -> Any:
    """ToJson output of a TLA+ value -> the bridge's encoding (sets arrive as arrays; pairs as
    arrays): nothing to do structurally, kept as a hook."""
    return v


def is_prefix(p: list, q: list) -> bool:
    return len(p) <= len(q) and list(q[: len(p)]) == list(p)


def deser_verdict(expect: dict, out: dict, ambig: bool = False, dups_ok: bool = False) -> str:
    """Same clauses as spec/trace/Trace_Deser.tla!Verdict."""
    if out["kind"] == "exc":
        # a ValidationError whose `errors` cannot be computed / is not JSON data (a loc that is not a key of the
        # input): the error REPORT is wrong (C02), the call itself did raise a ValidationError
        return "errors-escape" if str(out.get("exc", "")).startswith("errors:") else "escape"
    if expect["ok"] and isinstance(expect["v"], dict) and expect["v"].get("k") == "unspecified":
        return "ok"
    if expect["ok"]:
        if out["kind"] != "ok":
            return "rejected-conforming"
        if out["v"].get("k") == "unencodable":
            return "ok"
        a, b = expect["v"], out["v"]
        if ambig:
            a, b = _num_norm(a), _num_norm(b)
        return "ok" if bridge.values_equal(a, b) else "image"
    if out["kind"] == "ok":
        return "accepted-nonconforming"
    got = [(tuple(loc), rule) for loc, rule in out["errs"]]
    req = [(tuple(loc), rule) for loc, rule in expect["e"]]
    extra = [(tuple(loc), rule) for loc, rule in expect["x"]]
    for loc, rule in req:
        if rule == "ANY":
            if not any(is_prefix(list(loc), list(g[0])) for g in got):
                return "errors-missing"
        elif (loc, rule) not in got:
            return "errors-missing"
    for g in got:
        if g not in req and g not in extra and not any(
                rule == "ANY" and is_prefix(list(loc), list(g[0])) for loc, rule in extra):
            return "errors-spurious"
    if not dups_ok and len(set(got)) != len(got):
        return "errors-duplicate"
    if not out.get("order_ok", True):
        return "errors-order"
    return "ok"
