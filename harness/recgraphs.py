"""Type graphs for C20: one source for the TLA+ constants (Nodes, Succ) and for the real
dataclasses.  A graph is {class: [(field, type-node)]}; type nodes are class names, "int",
"None", or ("opt", X) / ("list", X) applied to a class name."""
from __future__ import annotations

import random
from typing import Any, Dict, List, Tuple

GRAPHS: Dict[str, Dict[str, List[Tuple[str, Any]]]] = {
    # mutually recursive pair
    "G1": {"A": [("b", ("opt", "B")), ("x", "int")], "B": [("a", ("opt", "A"))]},
    # non recursive parent of a cycle, plus a self loop
    "G2": {"P": [("a", "A"), ("n", "int")], "A": [("b", ("opt", "B")), ("x", "int")], "B": [("a", ("opt", "A"))],
           "S": [("s", ("opt", "S")), ("n", "int")]},
    # diamond sharing a cycle
    "G3": {"D": [("l", "L"), ("r", "R")], "L": [("c", ("opt", "C"))], "R": [("c", ("opt", "C"))],
           "C": [("d", ("opt", "D"))]},
    # cycle through a list + an acyclic tail
    "G4": {"N": [("kids", ("list", "N")), ("leaf", "Q")], "Q": [("x", "int")]},
    # found by the free-running driver: the only way from L_C4 back to the guard crosses C4, which an
    # inner analysis has already cached as recursive
    "G5": {"C0": [("f0", ("opt", "C3")), ("f1", ("list", "C1")), ("f2", ("list", "C4"))],
           "C1": [("f0", ("opt", "C2"))],
           "C2": [("f0", ("opt", "C4")), ("f1", ("opt", "C3")), ("f2", ("list", "C3"))],
           "C3": [("f0", ("opt", "C0"))],
           "C4": [("f0", ("opt", "C4")), ("f1", ("opt", "C2"))]},
    # the same phenomenon, minimal: R -> [A, LB]; A -> OA -> A (inner cycle), A -> OR -> R; LB -> B -> OA2 ...
    "G6": {"R": [("a", ("opt", "A")), ("bs", ("list", "A"))], "A": [("s", ("opt", "A")), ("r", ("opt", "R"))]},
}

PROGRAMS = {
    "G1": [{"t1": ["A"], "t2": ["B"]}, {"t1": ["A"], "t2": ["B"], "t3": ["A"]}],
    "G2": [{"t1": ["P", "S"], "t2": ["B", "S"]}, {"t1": ["P"], "t2": ["A"]}],
    "G3": [{"t1": ["D"], "t2": ["C"]}, {"t1": ["L"], "t2": ["R"]}],
    "G4": [{"t1": ["N"], "t2": ["N"]}, {"t1": ["N"], "t2": ["Q"]}],
    "G5": [{"t1": ["C3"]}, {"t1": ["C3"], "t2": ["C1"]}],
    "G6": [{"t1": ["R"]}, {"t1": ["R"], "t2": ["A"]}],
}


def node_name(t: Any) -> str:
    if isinstance(t, tuple):
        return {"opt": "O", "list": "L"}[t[0]] + "_" + t[1]
    return t


def succ_of(graph: dict) -> Dict[str, List[str]]:
    succ: Dict[str, List[str]] = {}
    for cls, fields in graph.items():
        succ[cls] = [node_name(t) for _, t in fields]
        for _, t in fields:
            if isinstance(t, tuple):
                succ[node_name(t)] = [t[1], "None"] if t[0] == "opt" else [t[1]]
            elif t not in graph:
                succ.setdefault(t, [])
    for n in list(succ):
        for m in succ[n]:
            succ.setdefault(m, [])
    return succ


def tla_constants(graph: dict, prog: Dict[str, List[str]]) -> Tuple[str, str, str, str]:
    succ = succ_of(graph)
    nodes = "{" + ", ".join(f'"{n}"' for n in sorted(succ)) + "}"
    cases = " [] ".join(f'n = "{n}" -> <<' + ", ".join(f'"{m}"' for m in ms) + ">>" for n, ms in sorted(succ.items()))
    succ_t = f"[n \\in {nodes} |-> CASE {cases}]"
    threads = "{" + ", ".join(f'"{t}"' for t in sorted(prog)) + "}"
    pcases = " [] ".join(f't = "{t}" -> <<' + ", ".join(f'"{r}"' for r in rs) + ">>" for t, rs in sorted(prog.items()))
    prog_t = f"[t \\in {threads} |-> CASE {pcases}]"
    return nodes, succ_t, threads, prog_t


def mc_module(name: str, graph: dict, prog: dict, extends: str = "RecCheck") -> str:
    nodes, succ_t, threads, prog_t = tla_constants(graph, prog)
    return (f"---- MODULE {name} ----\nEXTENDS {extends}\n"
            f"GNodes == {nodes}\nGSucc == {succ_t}\nGThreads == {threads}\nGProg == {prog_t}\n====\n")


def py_type_expr(t: Any) -> str:
    if isinstance(t, tuple):
        return {"opt": "Optional", "list": "List"}[t[0]] + f'["{t[1]}"]'
    return {"int": "int", "None": "None"}.get(t, f'"{t}"')


def build_classes(graph: dict, tag: str):
    """Real dataclasses for the graph (fresh classes on every call) and the key -> node map."""
    import dataclasses
    import typing

    src = ["from __future__ import annotations", "from dataclasses import dataclass, field",
           "from typing import Optional, List"]
    for cls, fields in graph.items():
        src.append("@dataclass")
        src.append(f"class {cls}:")
        for fname, t in fields:
            # every field has a default, so that the declaration (= visit) order is the graph's
            default = " = field(default_factory=list)" if isinstance(t, tuple) and t[0] == "list" else \
                " = 0" if t == "int" else " = None"
            src.append(f"    {fname}: {py_type_expr(t).replace(chr(34), '')}{default}")
    # fields without default must come first: reorder per class
    ns: dict = {"__name__": f"verifrec_{tag}"}
    import sys
    import types as _types

    mod = _types.ModuleType(ns["__name__"])
    sys.modules[ns["__name__"]] = mod
    code = "\n".join(src)
    exec(compile(code, f"<{ns['__name__']}>", "exec"), mod.__dict__)
    keymap = {}
    for cls, fields in graph.items():
        real = mod.__dict__[cls]
        keymap[real] = cls
        hints = typing.get_type_hints(real)
        for fname, t in fields:
            keymap[hints[fname]] = node_name(t)
    keymap[type(None)] = "None"
    keymap[int] = "int"
    return mod, keymap


def reorder_defaults(src: List[str]) -> List[str]:
    out: List[str] = []
    i = 0
    while i < len(src):
        out.append(src[i])
        if src[i].startswith("class "):
            body = []
            i += 1
            while i < len(src) and src[i].startswith("    "):
                body.append(src[i])
                i += 1
            out.extend([b for b in body if " = " not in b] + [b for b in body if " = " in b])
            continue
        i += 1
    return out


def random_graph(rng: random.Random) -> dict:
    n = rng.randint(2, 5)
    names = [f"C{i}" for i in range(n)]
    g = {}
    for c in names:
        fields = []
        for j in range(rng.randint(1, 3)):
            r = rng.random()
            if r < 0.3:
                fields.append((f"f{j}", "int"))
            elif r < 0.65:
                fields.append((f"f{j}", ("opt", rng.choice(names))))
            elif r < 0.85:
                fields.append((f"f{j}", ("list", rng.choice(names))))
            else:
                # a direct (non optional) reference only forward, so that values stay finite
                later = [x for x in names if x > c]
                fields.append((f"f{j}", rng.choice(later) if later else "int"))
        g[c] = fields
    return g


def true_rec(graph: dict) -> Dict[str, bool]:
    succ = succ_of(graph)

    def reach(n):
        seen, todo = set(), list(succ[n])
        while todo:
            m = todo.pop()
            if m not in seen:
                seen.add(m)
                todo.extend(succ[m])
        return seen

    return {n: n in reach(n) for n in succ}
