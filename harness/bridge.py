"""Bridge between the TLA+ encodings (spec/Values.tla, spec/DataModel.tla) and real Python
objects / apischema types.

Nothing here uses apischema's visitors: types are built from *source text* (so that forward
references, `inspect.getsource` for validators and `get_type_hints` all work as for user code)
using only `dataclasses`, `typing`, `enum` and apischema's public metadata constructors.
"""
from __future__ import annotations

import dataclasses
import importlib
import itertools
import math
import os
import re
import sys
import tempfile
import enum
from typing import Any, Dict, List, Optional, Tuple

# ---------------------------------------------------------------------------------------------
# patterns: ids used by the specification -> real regular expressions (match at start)
PATTERNS: Dict[str, str] = {
    # start-anchored, so that re.match (apischema) and re.search (JSON Schema validators) agree
    "pa": "^a",           # starts with "a"
    "pnum": "^[0-9]+$",   # only digits
    "pz": "^z",           # starts with "z"
    "pab": "^ab",         # starts with "ab"
}

BOOL_WORDS_TRUE = {"1", "t", "y", "yes", "true", "on", "ok"}
BOOL_WORDS_FALSE = {"0", "f", "n", "no", "false", "off", "ko"}


def str_attrs(s: str) -> dict:
    """Attributes of a string the specification cannot compute: Python's own int()/float()
    parsing, the documented boolean word table (independent transcription of the docs), and
    regex matching by `re`."""
    try:
        n = int(s)
        iv = ["y", n] if abs(n) < 2**30 else ["x", 0]
    except ValueError:
        iv = ["n", 0]
    try:
        f = float(s)
        if math.isfinite(f) and (f * 2) == int(f * 2) and abs(f) < 2**29:
            fv = ["y", int(f * 2)]
        else:
            fv = ["x", 0]      # not exactly representable in halves: outcome left open
    except ValueError:
        fv = ["n", 0]
    low = s.lower()
    bw = "t" if low in BOOL_WORDS_TRUE else "f" if low in BOOL_WORDS_FALSE else "none"
    pats = sorted(pid for pid, rx in PATTERNS.items() if re.compile(rx).match(s))
    return {"int": iv, "float": fv, "boolw": bw, "pats": pats}


# ---------------------------------------------------------------------------------------------
# data  <->  Python


def dec_data(d: dict) -> Any:
    k = d["k"]
    if k == "null":
        return None
    if k == "bool":
        return d["b"]
    if k == "int":
        return d["n"]
    if k == "float":
        return d["h"] / 2
    if k == "str":
        return d["s"]
    if k == "arr":
        return [dec_data(x) for x in d["a"]]
    if k == "obj":
        return {key: dec_data(v) for key, v in d["o"]}
    if k == "py":
        return make_exotic(d["c"])
    raise ValueError(f"bad datum {d}")


def enc_data(x: Any) -> dict:
    if x is None:
        return {"k": "null"}
    if x is True or x is False:
        return {"k": "bool", "b": x}
    if type(x) is int:
        if abs(x) >= 2**30:
            raise Unencodable("big int")
        return {"k": "int", "n": x}
    if type(x) is float:
        if not math.isfinite(x) or x * 2 != int(x * 2) or abs(x) >= 2**29:
            raise Unencodable("non dyadic float")
        return {"k": "float", "h": int(x * 2)}
    if type(x) is str:
        if not x.isascii() or any(ord(c) < 32 for c in x) or "\\" in x:
            raise Unencodable("non ascii string")
        return {"k": "str", "s": x}
    if type(x) is list:
        return {"k": "arr", "a": [enc_data(y) for y in x]}
    if type(x) is dict:
        for key in x:
            if type(key) is not str:
                raise Unencodable("non str key")
            enc_data(key)
        return {"k": "obj", "o": [[key, enc_data(v)] for key, v in x.items()]}
    raise Unencodable(f"not JSON-like: {type(x).__name__}")


class Unencodable(Exception):
    pass


class _StrSub(str):
    pass


class _IntSub(int):
    pass


class _DictSub(dict):
    pass


class _ListSub(list):
    pass


class _Obj:
    def __repr__(self):
        return "<Obj>"


EXOTIC_KINDS = (
    "nan", "inf", "ninf", "hugeint", "hugefloatint", "strsub", "intsub", "dictsub", "listsub",
    "tuple", "emptytuple", "bytes", "set", "obj", "intkeydict", "mixedkeydict", "nonekeydict",
    "deep", "complex", "type",
)


def make_exotic(c: str) -> Any:
    if c == "nan":
        return float("nan")
    if c == "inf":
        return float("inf")
    if c == "ninf":
        return float("-inf")
    if c == "hugeint":
        return 10**400
    if c == "hugefloatint":
        return 2**70
    if c == "strsub":
        return _StrSub("a")
    if c == "intsub":
        return _IntSub(1)
    if c == "dictsub":
        return _DictSub(a=1)
    if c == "listsub":
        return _ListSub([1])
    if c == "tuple":
        return (1, "a")
    if c == "emptytuple":
        return ()
    if c == "bytes":
        return b"a"
    if c == "set":
        return {1}
    if c == "obj":
        return _Obj()
    if c == "intkeydict":
        return {1: "a"}
    if c == "mixedkeydict":
        return {1: "a", "b": "c"}
    if c == "nonekeydict":
        return {None: 1}
    if c == "deep":
        x: Any = 1
        for _ in range(200):
            x = [x]
        return x
    if c == "complex":
        return 1j
    if c == "type":
        return int
    raise ValueError(c)


# ---------------------------------------------------------------------------------------------
# typed values <-> Python


class Ctx:
    """A built class table: real classes, enums and newtypes generated from the encoding."""

    def __init__(self, module, classes: dict, enums: dict):
        self.module = module
        self.classes = classes
        self.enums = enums
        self.ns = module.__dict__

    def cls(self, name: str) -> type:
        return self.ns[name]

    def type(self, T: dict) -> Any:
        return eval(type_expr(T), self.ns)

    # -- values
    def dec_value(self, v: dict) -> Any:
        k = v["k"]
        if k in ("null", "bool", "int", "float", "str"):
            return dec_data(v)
        if k == "list":
            return [self.dec_value(x) for x in v["a"]]
        if k == "tuple":
            return tuple(self.dec_value(x) for x in v["a"])
        if k == "set":
            return {self.dec_value(x) for x in v["e"]}
        if k == "fset":
            return frozenset(self.dec_value(x) for x in v["e"])
        if k == "dict":
            return {self.dec_value(a): self.dec_value(b) for a, b in v["o"]}
        if k == "enum":
            return self.ns[v["cls"]][v["m"]]
        if k == "undef":
            from apischema import Undefined

            return Undefined
        if k == "inst":
            cls = self.ns[v["cls"]]
            spec = self.classes[v["cls"]]
            vals = {n: self.dec_value(x) for n, x in v["f"]}
            if spec["kind"] == "namedtuple":
                return cls(**vals)
            init = {
                f["name"]: vals[f["name"]]
                for f in spec["fields"]
                if f["kind"] != "ro" and f["name"] in vals
            }
            for f in spec["fields"]:
                if f["kind"] == "wo" and f["name"] not in init:
                    init[f["name"]] = self.dec_value(f["dv"]) if f["dk"] != "req" else None
            obj = cls(**init)
            # the encoded value is the state of the instance (a __post_init__ must not be applied twice)
            for f in spec["fields"]:
                if f["kind"] != "wo" and f["name"] in vals:
                    obj.__dict__[f["name"]] = vals[f["name"]]
            return obj
        raise ValueError(f"bad value {v}")

    def enc_value(self, x: Any) -> dict:
        from apischema import Undefined

        if x is Undefined:
            return {"k": "undef"}
        if x is None or type(x) in (bool, int, float, str):
            return enc_data(x)
        if type(x) is list:
            return {"k": "list", "a": [self.enc_value(y) for y in x]}
        if type(x) is tuple:
            return {"k": "tuple", "a": [self.enc_value(y) for y in x]}
        if type(x) is set:
            return {"k": "set", "e": canon_set([self.enc_value(y) for y in x])}
        if type(x) is frozenset:
            return {"k": "fset", "e": canon_set([self.enc_value(y) for y in x])}
        if type(x) is dict:
            return {"k": "dict", "o": [[self.enc_value(a), self.enc_value(b)] for a, b in x.items()]}
        if isinstance(x, enum.Enum):
            return {"k": "enum", "cls": type(x).__name__, "m": x.name}
        name = type(x).__name__
        if name in self.classes and type(x) is self.ns.get(name):
            spec = self.classes[name]
            if spec["kind"] == "namedtuple":
                return {"k": "inst", "cls": name,
                        "f": [[n, self.enc_value(getattr(x, n))] for n in x._fields]}
            return {"k": "inst", "cls": name,
                    "f": [[f.name, self.enc_value(getattr(x, f.name, _MISSING_ATTR))]
                          for f in dataclasses.fields(x)]}
        if x is _MISSING_ATTR:
            return {"k": "missingattr"}
        return {"k": "foreign", "cls": f"{type(x).__module__}.{type(x).__qualname__}"}


_MISSING_ATTR = object()


def canon_key(v: Any) -> str:
    import json

    return json.dumps(v, sort_keys=True)


def canon_set(vs: List[dict]) -> List[dict]:
    seen = {}
    for v in vs:
        seen[canon_key(v)] = v
    return [seen[k] for k in sorted(seen)]


def canon_value(v: Any) -> Any:
    """Canonical form of an encoded value for comparison: sets sorted, records key-sorted."""
    if isinstance(v, dict):
        out = {k: canon_value(x) for k, x in v.items()}
        if out.get("k") in ("set", "fset"):
            out["e"] = canon_set(out["e"])
        if out.get("k") == "dict":      # dict equality ignores insertion order
            out["o"] = sorted(out["o"], key=canon_key)
        return out
    if isinstance(v, list):
        return [canon_value(x) for x in v]
    return v


def values_equal(a: Any, b: Any) -> bool:
    return canon_key(canon_value(a)) == canon_key(canon_value(b))


# ---------------------------------------------------------------------------------------------
# types: encoding -> Python source expression


def lit_expr(d: dict) -> str:
    return repr(dec_data(d))


def cons_kwargs(cons: list) -> str:
    parts = []
    for name, val in cons:
        if name in ("min", "max", "exc_min", "exc_max", "mult_of"):
            pv = val // 2 if val % 2 == 0 else val / 2
            parts.append(f"{name}={pv!r}")
        elif name == "pattern":
            parts.append(f"pattern={PATTERNS[val]!r}")
        elif name == "unique":
            parts.append("unique=True")
        else:
            parts.append(f"{name}={val!r}")
    return ", ".join(parts)


def type_expr(T: dict) -> str:
    k = T["k"]
    if k == "prim":
        return {"none": "NoneType", "bool": "bool", "int": "int", "float": "float", "str": "str",
                "undef": "UndefinedType"}[T["p"]]
    if k == "any":
        return "Any"
    if k == "coll":
        ctor = {"list": "List", "seq": "Sequence", "set": "Set", "aset": "AbstractSet",
                "fset": "FrozenSet", "vtuple": "Tuple", "coll": "Collection"}[T["c"]]
        if T["c"] == "vtuple":
            return f"Tuple[{type_expr(T['e'])}, ...]"
        return f"{ctor}[{type_expr(T['e'])}]"
    if k == "tuple":
        return "Tuple[" + ", ".join(type_expr(e) for e in T["es"]) + "]"
    if k == "map":
        return f"{T.get('c', 'Dict')}[{type_expr(T['kt'])}, {type_expr(T['vt'])}]"
    if k == "union":
        parts = [type_expr(a) for a in T["alts"]]
        # alternatives marked Unsupported: ignored by apischema, present in the declaration
        for pos, t in sorted(T.get("uns", []), key=lambda p: p[0]):
            parts.insert(pos - 1, f"Annotated[{type_expr(t)}, Unsupported]")
        return "Union[" + ", ".join(parts) + "]"
    if k == "lit":
        mem = T.get("mem") or []
        return "Literal[" + ", ".join(f"{mem[i]['cls']}.{mem[i]['m']}" if i < len(mem) and mem[i].get("k") == "enum" else lit_expr(v)
                                      for i, v in enumerate(T["vals"])) + "]"
    if k == "enum":
        return T["cls"]
    if k == "newtype":
        return T["name"]
    if k == "annot":
        return f"Annotated[{type_expr(T['t'])}, schema({cons_kwargs(T['cons'])})]"
    if k == "obj":
        return T["cls"]
    if k == "dunion":
        if T.get("mode", "explicit") == "default":
            args = repr(T["alias"])
        else:
            pairs = [(keys, a) for keys, a in zip(T["keys"], T["alts"])
                     if not (T.get("mode") == "partial" and list(keys) == [a.get("cls")])]   # partial: the others stay implicit
            mapping = "{" + ", ".join(f"{key!r}: {type_expr(a)}" for keys, a in pairs for key in keys) + "}"
            args = f"{T['alias']!r}, {mapping}"
        return "Annotated[Union[" + ", ".join(type_expr(a) for a in T["alts"]) + f"], discriminator({args})]"
    raise ValueError(f"bad type {T}")


def collect_newtypes(T: dict, acc: dict):
    if not isinstance(T, dict):
        return
    if T.get("k") == "newtype":
        acc.setdefault(T["name"], T["sup"])
        collect_newtypes(T["sup"], acc)
    for key in ("e", "kt", "vt", "t", "sup"):
        if key in T and isinstance(T[key], dict):
            collect_newtypes(T[key], acc)
    for key in ("es", "alts"):
        for x in T.get(key, ()):
            collect_newtypes(x, acc)


HEADER = """\
from __future__ import annotations
import copy
from dataclasses import dataclass, field, InitVar
from enum import Enum
from typing import *
from typing import Annotated, Literal, NamedTuple, TypedDict, NewType
from apischema import (alias, schema, Undefined, UndefinedType, validator, ValidationError,
                       serialized, order, discriminator)
from apischema.metadata import (flatten, properties, required, skip, none_as_undefined,
                                fall_back_on_default, init_var, default_as_set, post_init)
from apischema.fields import with_fields_set
from apischema.dependencies import dependent_required
from apischema.visitor import Unsupported
CALLS = []
NoneType = type(None)
"""


def field_source(cname: str, f: dict, kind: str) -> Tuple[str, List[str]]:
    """Source line of one field; returns (line, metadata list)."""
    md: List[str] = []
    if f["alias"] != f["name"] or f.get("alias_explicit"):
        md.append(f"alias({f['alias']!r})")
    if f.get("flat"):
        md.append("flatten")
    if f.get("props") == "add":
        md.append("properties")
    elif f.get("props") == "pat":
        md.append(f"properties(pattern={PATTERNS[f['pat']]!r})")
    if f.get("reqmd"):
        md.append("required")
    sk = []
    if f.get("skipd"):
        sk.append("deserialization=True")
    if f.get("skips"):
        sk.append("serialization=True")
    if f.get("skip_default"):
        sk.append("serialization_default=True")
    if f.get("skip_if"):
        sk.append(f"serialization_if=_PRED_{f['skip_if']}")
    if sk:
        md.append(f"skip({', '.join(sk)})")
    if f.get("nau"):
        md.append("none_as_undefined")
    if f.get("fbd"):
        md.append("fall_back_on_default")
    if f.get("das"):
        md.append("default_as_set")
    if f.get("cons"):
        md.append(f"schema({cons_kwargs(f['cons'])})")
    if f.get("order") is not None:
        md.append(f"order({f['order']})")
    texpr = type_expr(f["type"])
    if f["kind"] == "wo":
        texpr = f"InitVar[{texpr}]"
    elif f.get("mdann") and md:
        # the same metadata carried inside Annotated instead of field(metadata=...)
        texpr, md = f"Annotated[{texpr}, {', '.join(md)}]", []
    return texpr, md


def td_type(f: dict) -> str:
    """TypedDict keys carry their metadata in Annotated."""
    t = type_expr(f["type"])
    if f["alias"] != f["name"]:
        return f"Annotated[{t}, alias({f['alias']!r})]"
    return t


def class_source(name: str, spec: dict) -> str:
    kind = spec["kind"]
    lines: List[str] = []
    if kind == "dataclass":
        for deco in spec.get("decorators", ()):
            lines.append(deco)
        if spec.get("fields_set"):
            lines.append("@with_fields_set")
        lines.append("@dataclass" + ("(frozen=True)" if spec.get("frozen") else ""))
        bases = spec.get("bases", ())
        lines.append(f"class {name}({', '.join(bases)}):" if bases else f"class {name}:")
        body = []
        for f in spec["fields"]:
            if f.get("inherited"):
                continue
            texpr, md = field_source(name, f, kind)
            args = []
            if f["dk"] == "val":
                args.append(f"default=_D[{name + '.' + f['name']!r}]")
            elif f["dk"] == "fac":
                args.append(f"default_factory=lambda: copy.deepcopy(_D[{name + '.' + f['name']!r}])")
            if f["kind"] == "ro":
                args.append("init=False")
            if md:
                args.append("metadata=" + " | ".join(md))
            if args:
                body.append(f"    {f['name']}: {texpr} = field({', '.join(args)})")
            else:
                body.append(f"    {f['name']}: {texpr}")
        if spec.get("depreq"):
            dr = "{" + ", ".join(f"{a!r}: {list(bs)!r}" for a, bs in spec["depreq"]) + "}"
            body.append(f"    _depreq = dependent_required({dr})")
        if spec.get("postinc") and not spec.get("bases"):
            body.append("    def __post_init__(self):")
            body.append(f"        self.{spec['postinc']} = self.{spec['postinc']} + 100")
        for m in spec.get("smethods", ()):
            body.append(f"    @serialized({m['alias']!r})")
            body.append(f"    def {m['name']}(self) -> {type_expr(m['rtype'])}:")
            body.append(f"        return copy.deepcopy(_D[{name + '.' + m['name']!r}])")
        body.extend(spec.get("extra_body", ()))
        lines.extend(body or ["    pass"])
    elif kind == "namedtuple":
        lines.append(f"class {name}(NamedTuple):")
        for f in spec["fields"]:
            texpr = type_expr(f["type"])
            if f["dk"] == "req":
                lines.append(f"    {f['name']}: {texpr}")
            else:
                lines.append(f"    {f['name']}: {texpr} = _D[{name + '.' + f['name']!r}]")
    elif kind == "typeddict":
        req = [f for f in spec["fields"] if f["dk"] == "req"]
        opt = [f for f in spec["fields"] if f["dk"] != "req"]
        if req and opt:
            lines.append(f"class _{name}Req(TypedDict):")
            for f in req:
                lines.append(f"    {f['name']}: {td_type(f)}")
            lines.append(f"class {name}(_{name}Req, total=False):")
            for f in opt:
                lines.append(f"    {f['name']}: {td_type(f)}")
        else:
            total = "" if req or not opt else ", total=False"
            lines.append(f"class {name}(TypedDict{total}):")
            for f in spec["fields"]:
                lines.append(f"    {f['name']}: {td_type(f)}")
            if not spec["fields"]:
                lines.append("    pass")
    else:
        raise ValueError(kind)
    return "\n".join(lines) + "\n"


_gen_counter = itertools.count()
_gen_dir: Optional[str] = None


def gen_dir() -> str:
    global _gen_dir
    if _gen_dir is None or not os.path.isdir(_gen_dir):
        _gen_dir = tempfile.mkdtemp(prefix="verifgen_")
        sys.path.insert(0, _gen_dir)
    return _gen_dir


def cleanup_gen_dir():
    global _gen_dir
    if _gen_dir and os.path.isdir(_gen_dir):
        import shutil

        shutil.rmtree(_gen_dir, ignore_errors=True)
    _gen_dir = None


def module_source(classes: dict, enums: dict, types: List[dict], extra: str = "") -> str:
    src = [HEADER]
    for ename, members in enums.items():
        src.append(f"class {ename}(Enum):")
        for m, val in members:
            src.append(f"    {m} = {lit_expr(val)}")
        src.append("")
    newtypes: dict = {}
    for T in types:
        collect_newtypes(T, newtypes)
    for spec in classes.values():
        for f in spec["fields"]:
            collect_newtypes(f["type"], newtypes)
    for nname, sup in newtypes.items():
        src.append(f"{nname} = NewType({nname!r}, {type_expr(sup)})")
    src.append(extra)
    for cname in class_order(classes):
        src.append(class_source(cname, classes[cname]))
    return "\n".join(src)


def class_order(classes: dict) -> List[str]:
    """Bases before subclasses; otherwise the given order (forward refs are strings anyway)."""
    out: List[str] = []

    def add(n):
        if n in out or n not in classes:
            return
        for b in classes[n].get("bases", ()):
            add(b)
        out.append(n)

    # later classes first: a class created later is referenced by (the defaults of) earlier ones
    for n in reversed(list(classes)):
        add(n)
    return out


def build_ctx(classes: dict, enums: dict, types: List[dict] = (), extra: str = "") -> Ctx:
    src = module_source(classes, enums, list(types), extra)
    name = f"verifgen_{os.getpid()}_{next(_gen_counter)}"
    path = os.path.join(gen_dir(), name + ".py")
    with open(path, "w") as fh:
        fh.write(src)
    importlib.invalidate_caches()
    spec = importlib.util.spec_from_file_location(name, path)
    module = importlib.util.module_from_spec(spec)
    sys.modules[name] = module
    ctx = Ctx(module, classes, enums)
    # `_D['K.f']` (field defaults) is looked up while the class bodies execute
    module.__dict__["_D"] = _LazyDefaults(ctx, classes)
    for pred, fn in PREDICATES.items():
        module.__dict__[f"_PRED_{pred}"] = fn
    exec(compile(src, path, "exec"), module.__dict__)
    return ctx


class _LazyDefaults(dict):
    """`_D['K.f']` evaluated at class-definition time; values may reference enums defined above."""

    def __init__(self, ctx: Ctx, classes: dict):
        super().__init__()
        self.ctx = ctx
        self.classes = classes

    def __missing__(self, key: str):
        cname, fname = key.split(".", 1)
        for f in self.classes[cname]["fields"]:
            if f["name"] == fname:
                val = self.ctx.dec_value(f["dv"])
                self[key] = val
                return val
        for m in self.classes[cname].get("smethods", ()):
            if m["name"] == fname:
                val = self.ctx.dec_value(m["rv"])
                self[key] = val
                return val
        raise KeyError(key)


PREDICATES = {
    "neg": lambda x: isinstance(x, (int, float)) and not isinstance(x, bool) and x < 0,
    "empty": lambda x: x in ("", [], {}, ()),
    "falsy": lambda x: not x,
}

# ---------------------------------------------------------------------------------------------
# errors -> rules

_RULE_PATTERNS = [
    (re.compile(r"^expected type (\w+), found \w+$"), lambda m: "type:" + m.group(1)),
    (re.compile(r"^less than or equal to .* \(exclusiveMinimum\)$"), lambda m: "exclusiveMinimum"),
    (re.compile(r"^greater than or equal to .* \(exclusiveM\w+\)$"), lambda m: "exclusiveMaximum"),
    (re.compile(r"^less than .* \(minimum\)$"), lambda m: "minimum"),
    (re.compile(r"^greater than .* \(maximum\)$"), lambda m: "maximum"),
    (re.compile(r"^not a multiple of .* \(multipleOf\)$"), lambda m: "multipleOf"),
    (re.compile(r"^string length lower than .* \(minLength\)$"), lambda m: "minLength"),
    (re.compile(r"^string length greater than .* \(maxLength\)$"), lambda m: "maxLength"),
    (re.compile(r"^not matching pattern .* \(pattern\)$"), lambda m: "pattern"),
    (re.compile(r"^item count lower than .* \(minItems\)$"), lambda m: "minItems"),
    (re.compile(r"^item count greater than .* \(maxItems\)$"), lambda m: "maxItems"),
    (re.compile(r"^duplicate items \(uniqueItems\)$"), lambda m: "uniqueItems"),
    (re.compile(r"^property count lower than .* \(minProperties\)$"), lambda m: "minProperties"),
    (re.compile(r"^property count greater than .* \(maxProperties\)$"), lambda m: "maxProperties"),
    (re.compile(r"^not one of .* \(oneOf\)$", re.S), lambda m: "oneOf"),
    (re.compile(r"^missing property( \(required by .*\))?$"), lambda m: "missing"),
    (re.compile(r"^unexpected property$"), lambda m: "unexpected"),
    (re.compile(r"^VFAIL:(.*)$", re.S), lambda m: "validator:" + m.group(1)),
]


def rule_of(msg: str) -> str:
    for rx, fn in _RULE_PATTERNS:
        m = rx.match(msg)
        if m:
            return fn(m)
    return "msg:" + msg


def loc_key(key: Any) -> str:
    if isinstance(key, int) and not isinstance(key, bool):
        return f"#{key}"
    return str(key)


def enc_errors(errors: List[dict]) -> List[list]:
    """ValidationError.errors -> list of [loc, rule] in the reported order."""
    return [[[loc_key(k) for k in e["loc"]], rule_of(e["err"])] for e in errors]


def errors_order_ok(errors: List[dict]) -> bool:
    """Own messages first, then children in key order (ints before... keys of one node are
    homogeneous for JSON data): the reported list must be sorted under the tree order."""

    def sort_key(e):
        # indices first (numerically), then the other keys by their string (documented order
        # "children in key order"; non-string keys only occur with non JSON-shaped data)
        return [(0, k, "") if isinstance(k, int) and not isinstance(k, bool) else (1, 0, str(k))
                for k in e["loc"]]

    keys = [sort_key(e) for e in errors]
    for a, b in zip(keys, keys[1:]):
        if a == b:
            continue
        # prefix first (own messages before children), otherwise lexicographic
        n = min(len(a), len(b))
        if a[:n] == b[:n]:
            if len(a) > len(b):
                return False
        elif a[:n] > b[:n]:
            return False
    return True
