"""Subprimitive law (classes derived from a primitive: `class Port(int)`), checked on the real code on both sides.

The universe's encoding has no subprimitive leaf; the documented rule is that such a class (de)serializes as its
primitive base, the deserialized value being an instance of the class.  So for every context C[.] (alone, Optional,
list, dict value, by-type unions, dataclass field), every datum and strict / coercing mode:
    deserialize(C[Sub], d) and deserialize(C[prim], d)  accept / reject alike, with the same errors,
    equal values, and the class Sub wherever the primitive twin has the primitive.
Used by C01 (strict outcomes), C03 (no escaping exception, JSON-serialisable errors), C14 (coercing outcomes)."""
from __future__ import annotations

import json
from dataclasses import dataclass, field, make_dataclass
from typing import Any, Dict, List, Optional, Union

from . import bridge


class SubInt(int):
    pass


class SubStr(str):
    pass


class SubFloat(float):
    pass


PAIRS = [(SubInt, int), (SubStr, str), (SubFloat, float)]


def contexts(leaf, other):
    """`other`: a primitive of another JSON type than the leaf's."""
    dc = make_dataclass("Holder_" + leaf.__name__, [("x", leaf), ("y", Optional[leaf], field(default=None))])
    return [("alone", leaf), ("Optional", Optional[leaf]), ("List", List[leaf]), ("Dict", Dict[str, leaf]),
            ("Union[., other]", Union[leaf, other]), ("Union[other, ., None]", Union[other, leaf, None]),
            ("Union[., List[.]]", Union[leaf, List[leaf]]), ("field", dc)]


JSON_DATA = [0, 8080, -1, True, 1.5, 2.0, "80", "abc", "", "1.5", None, [], [1], ["a"], {}, {"k": 1}, {"k": "v"}, {"x": 1}, {"x": "s", "y": None},
             {"x": 1.5, "y": 2.5}, 10 ** 400]


def _strip(v, sub, prim):
    """The value with every instance of `sub` replaced by the primitive, and the number of replacements."""
    n = 0

    def go(x):
        nonlocal n
        if type(x) is sub:
            n += 1
            return prim(x)
        if isinstance(x, list):
            return [go(y) for y in x]
        if isinstance(x, dict):
            return {k: go(y) for k, y in x.items()}
        if hasattr(x, "__dataclass_fields__"):
            return {"__dc__": {k: go(getattr(x, k)) for k in x.__dataclass_fields__}}
        return x
    return go(v), n


def _count(v, prim):
    if type(v) is prim:
        return 1
    if isinstance(v, list):
        return sum(_count(y, prim) for y in v)
    if isinstance(v, dict):
        return sum(_count(y, prim) for y in v.values())
    if hasattr(v, "__dataclass_fields__"):
        return sum(_count(getattr(v, k), prim) for k in v.__dataclass_fields__)
    return 0


def _norm(v):
    if hasattr(v, "__dataclass_fields__"):
        return {"__dc__": {k: _norm(getattr(v, k)) for k in v.__dataclass_fields__}}
    if isinstance(v, list):
        return [_norm(y) for y in v]
    if isinstance(v, dict):
        return {k: _norm(y) for k, y in v.items()}
    return v


def outcome(tp, d, kw):
    from apischema import ValidationError, deserialize

    try:
        return ("ok", deserialize(tp, d, **kw))
    except ValidationError as err:
        try:
            errs = err.errors
            json.dumps(errs)
            return ("rejected", errs)
        except Exception as exc:  # the report itself is not computable
            return ("raised", "errors:" + type(exc).__name__)
    except Exception as exc:
        return ("raised", type(exc).__name__)


def run(rep, prop: str, modes) -> int:
    """modes: list of kwargs dicts.  Returns the number of compared calls."""
    import apischema.cache

    n = 0
    exotic = [bridge.make_exotic(k) for k in bridge.EXOTIC_KINDS] if prop == "C03" else []
    for sub, prim in PAIRS:
        other = str if prim is not str else int
        for (label, t_sub), (_, t_prim) in zip(contexts(sub, other), contexts(prim, other)):
            for kw in modes:
                apischema.cache.reset()
                for d in JSON_DATA + exotic:
                    n += 1
                    a = outcome(t_sub, d, kw)
                    b = outcome(t_prim, d, kw)
                    what = f"subprimitive law: deserialize({label} of class {sub.__name__}({prim.__name__}), {str(d)[:40]!r}, {kw})"
                    info = {"context": label, "sub": sub.__name__, "data": repr(d)[:200], "kwargs": {k: repr(v) for k, v in kw.items()}}
                    if a[0] == "raised":
                        if b[0] != "raised":
                            rep.violation(f"{what} raised {a[1]} (the primitive twin: {b[0]})", info)
                        continue
                    if prop == "C03" or b[0] == "raised":
                        continue
                    if a[0] != b[0]:
                        rep.violation(f"{what} is {a[0]} but the same call on {prim.__name__} is {b[0]}", info)
                    elif a[0] == "rejected" and sorted(map(json.dumps, a[1])) != sorted(map(json.dumps, b[1])):   # same entries (alternatives may be tried in another order)
                        rep.violation(f"{what} reports {a[1]} but the same call on {prim.__name__} reports {b[1]}", info)
                    elif a[0] == "ok":
                        stripped, k = _strip(a[1], sub, prim)
                        if stripped != _norm(b[1]):
                            rep.violation(f"{what} = {a[1]!r} but the same call on {prim.__name__} gives {b[1]!r}", info)
                        elif k == 0 and _count(b[1], prim) > 0 and label in ("alone", "List", "Dict", "field", "Optional"):
                            rep.violation(f"{what} = {a[1]!r}: the value is not an instance of {sub.__name__}", info)
    return n
