"""Shared plumbing of the checks: tiers, seeds, evidence files, violations, known findings."""
from __future__ import annotations

import hashlib
import json
import os
import sys
import time
from typing import Any, Dict, List, Optional

VERIF = os.path.dirname(os.path.dirname(os.path.abspath(__file__)))
REPO = os.environ.get("VERIF_REPO", "/repo")
# seed runs (tools/run_on_seed.sh) write their evidence elsewhere: the committed files come from the unchanged tree
EVIDENCE_DIR = os.environ.get("VERIF_EVIDENCE_DIR") or os.path.join(VERIF, "evidence")
REPLAY_DIR = os.path.join(EVIDENCE_DIR, "replays")
KNOWN_FINDINGS = os.path.join(VERIF, "known_findings.json")


def tier() -> str:
    t = os.environ.get("VERIF_TIER", "quick")
    return t if t in ("quick", "thorough") else "quick"


def seed() -> int:
    try:
        return int(os.environ.get("VERIF_SEED", "0"))
    except ValueError:
        return 0


def load_known_findings() -> List[dict]:
    with open(KNOWN_FINDINGS) as fh:
        return json.load(fh).get("findings", [])


class Report:
    """Collects what one check did; writes the evidence file; prints verdict lines."""

    def __init__(self, prop: str, level: str):
        self.prop = prop
        self.level = level
        self.t0 = time.time()
        self.cov: Dict[str, Any] = {"samples": []}
        self.violations: List[dict] = []
        self.known_hits: Dict[str, dict] = {}
        self.assumptions: List[str] = []
        self.known = [f for f in load_known_findings() if prop in f.get("properties", [f.get("property")])]

    # -- counters
    def add(self, key: str, n: int = 1):
        self.cov[key] = self.cov.get(key, 0) + n

    def set(self, key: str, v: Any):
        self.cov[key] = v

    def sample(self, s: Any, cap: int = 6):
        if len(self.cov["samples"]) < cap:
            self.cov["samples"].append(s)

    # -- violations
    def violation(self, what: str, case: Any, finding_key: Optional[str] = None):
        """Record a mismatch.  If `finding_key` names a listed known finding it is reported as
        KNOWN-FINDING, otherwise as a VIOLATION with a self-contained replay file."""
        if finding_key is not None:
            for f in self.known:
                if f["id"] == finding_key:
                    if finding_key not in self.known_hits:
                        self.known_hits[finding_key] = {"finding": f, "example": case, "count": 0}
                    self.known_hits[finding_key]["count"] += 1
                    return
        self.violations.append({"what": what, "case": case})

    def finish(self) -> int:
        os.makedirs(EVIDENCE_DIR, exist_ok=True)
        os.makedirs(REPLAY_DIR, exist_ok=True)
        for fid, hit in self.known_hits.items():
            print(f"KNOWN-FINDING: property={self.prop} {fid} {hit['finding']['what']} "
                  f"(reproduced {hit['count']}x)")
        seen = set()
        for v in self.violations[:20]:
            blob = json.dumps({"property": self.prop, **v}, sort_keys=True, default=str)
            h = hashlib.sha1(blob.encode()).hexdigest()[:12]
            if h in seen:
                continue
            seen.add(h)
            path = os.path.join(REPLAY_DIR, f"{self.prop}-{h}.json")
            with open(path, "w") as fh:
                fh.write(blob)
            print(f"VIOLATION property={self.prop} replay={path}")
            print(f"  {v['what']}")
        if len(self.violations) > 20:
            print(f"  ... and {len(self.violations) - 20} more violations")
        ev = {
            "property_id": self.prop,
            "tier": tier(),
            "seed": seed(),
            "level": self.level,
            "coverage": self.cov,
            "assumptions": self.assumptions,
            "wall_s": round(time.time() - self.t0, 2),
            "violations": len(self.violations),
            "known_findings_reproduced": {k: v["count"] for k, v in self.known_hits.items()},
        }
        with open(os.path.join(EVIDENCE_DIR, f"{self.prop}.json"), "w") as fh:
            json.dump(ev, fh, indent=1, default=str)
        return 1 if self.violations else 0
