"""C10: real classes with logging validators built from a Validators.tla case, and the real
run of one case."""
from __future__ import annotations

import json
import sys
import threading
import types
from typing import Any, Dict, List, Tuple

_counter = [0]
_classes: Dict[str, Any] = {}


def shape_key(case: dict) -> str:
    fields = [[f["name"], f["alias"], f["req"]] for f in case["fields"]]
    vals = [[v["name"], sorted(v["deps"]), v["fld"], sorted(v["disc"]), v["style"]] for v in case["vals"]]
    ext = [[x["name"], x["style"]] for x in case.get("ext", [])]
    return json.dumps([fields, vals, case.get("variant", ""), case.get("split", 0), case.get("wo", ""), bool(case.get("depreq")),
                       bool(case.get("generic")), ext, case.get("extmode", "arg") if ext else "", case.get("maxp", 0)])


def pn(name: str) -> str:
    """Python attribute name of a model field: several characters, so that a string is never
    mistaken for a collection of one-letter names."""
    return name + "_f" if name else name


def class_source(case: dict) -> str:
    """Source of a dataclass whose validators log their invocation in CALLS and fail iff
    OUT[name] says so.  Dependencies are discovered by apischema through the AST, so every
    dependency is really read on `self` (directly, through a method or through a property
    according to `variant`); an InitVar dependency is a declared parameter.  With `split` > 0
    the fields and the last validators live in a base class."""
    variant = case.get("variant", "attr")
    split = case.get("split", 0)
    wo = case.get("wo", "")
    lines = ["from dataclasses import dataclass, field, InitVar",
             "from apischema import alias, validator, ValidationError, dependent_required, schema",
             "from apischema.metadata import validators", "from typing import Annotated, List, Optional",
             "from apischema.objects import get_alias", "from typing import Generic, TypeVar", "T = TypeVar('T')", "CALLS = []", "OUT = {}", "CTOR = [0]", ""]

    def fields_block():
        out = []
        for f in case["fields"]:
            md = f"alias({f['alias']!r})"
            tp = "InitVar[int]" if f["name"] == wo else "int"
            if f["req"]:
                out.append(f"    {pn(f['name'])}: {tp}" + (f" = field(metadata={md})" if md else ""))
            else:
                out.append(f"    {pn(f['name'])}: {tp} = field(default=0" + (f", metadata={md}" if md else "") + ")")
        if case.get("depreq"):
            out.append(f"    deps_ab = dependent_required({{{pn('a')}: [{pn('b')}]}})")
        out.append(f"    def __post_init__(self{', ' + pn(wo) if wo else ''}):")
        out.append("        CTOR[0] += 1")
        if variant in ("method", "property"):
            for f in case["fields"]:
                if f["name"] == wo:
                    continue
                if variant == "property":
                    out.append("    @property")
                out.append(f"    def get_{f['name']}(self):")
                out.append(f"        return self.{pn(f['name'])}")
        return out

    def validator_block(v):
        out = []
        args = []
        if v["fld"]:
            args.append(repr(pn(v["fld"])))
        explicit_default = v["fld"] and sorted(v["disc"]) == [v["fld"]]
        if v["disc"] and not explicit_default:
            if len(v["disc"]) == 1:      # the documented raw-string form
                args.append("discard=" + repr(pn(sorted(v["disc"])[0])))
            else:
                args.append("discard=[" + ", ".join(repr(pn(d)) for d in sorted(v["disc"])) + "]")
        elif not v["disc"] and v["fld"]:
            args.append("discard=[]")
        out.append(f"    @validator({', '.join(args)})" if args else "    @validator")
        params = ", " + pn(wo) if wo and wo in v["deps"] else ""
        out.append(f"    def {v['name']}(self{params}):")
        out.append(f"        CALLS.append({v['name']!r})")
        for d in sorted(v["deps"]):
            if d == wo:
                continue
            if variant == "method":
                out.append(f"        self.get_{d}()")
            elif variant == "property":
                out.append(f"        self.get_{d}")
            else:
                out.append(f"        self.{pn(d)}")
        msg = f"'VFAIL:{v['name']}'"
        out.append(f"        if OUT[{v['name']!r}]:")
        if v["style"] == "raise":
            out.append(f"            raise ValidationError({msg})")
        elif v["style"] == "yield" or not v["deps"]:
            out.append(f"            yield {msg}")
        else:
            out.append(f"            yield get_alias(self).{pn(first_dep(case, v))}, {msg}")
            out.append(f"            yield get_alias(self).{pn(first_dep(case, v))}, {msg[:-1]}:2'")
        if v["style"] != "raise":
            out.append("        return")
            out.append("        yield")
        return out

    if split:
        lines += ["@dataclass", "class Base:"] + fields_block()
        for v in case["vals"][split:]:
            lines += validator_block(v)
        lines += [""] + ([f"@schema(max_props={case['maxp']})"] if case.get("maxp") else []) + ["@dataclass", "class K(Base):"]
        body = []
        for v in case["vals"][:split]:
            body += validator_block(v)
        lines += body or ["    pass"]
    else:
        # `generic`: the class is Generic[T] and is deserialized through its parametrised form K[int]
        if case.get("maxp"):
            lines.append(f"@schema(max_props={case['maxp']})")
        lines += ["@dataclass", "class K(Generic[T]):" if case.get("generic") else "class K:"] + fields_block()
        for v in case["vals"]:
            lines += validator_block(v)
    lines += ext_block(case)
    return "\n".join(lines) + "\n"


def ext_block(case: dict) -> List[str]:
    """Validators that are not bound to the class (plain functions), and where they are attached:
    TARGET is the type to deserialize, VARGS the `validators=` argument, WRAP the enclosing key."""
    ext = case.get("ext", [])
    mode = case.get("extmode", "arg")
    tp = "K[int]" if case.get("generic") and not case.get("split") else "K"
    out = [""]
    for x in ext:
        out.append(f"def {x['name']}(obj):")
        out.append(f"    CALLS.append({x['name']!r})")
        out.append(f"    if OUT[{x['name']!r}]:")
        if x["style"] == "raise":
            out.append(f"        raise ValidationError('VFAIL:{x['name']}')")
        else:
            out += [f"        yield 'VFAIL:{x['name']}'", "    return", "    yield"]
    names = ", ".join(x["name"] for x in ext)
    if not ext or mode == "arg":
        out += [f"TARGET = {tp}", f"VARGS = [{names}]", "WRAP = None"]
    elif mode == "annotated":
        out += [f"TARGET = Annotated[{tp}, validators({names})]", "VARGS = []", "WRAP = None"]
    elif mode == "recref":
        # the validators sit on the back-reference of the recursive class R; the object is held by the referenced node
        out += ["@dataclass", "class R:", f"    k_f: List[{tp}] = field(default_factory=list, metadata=alias('P'))",
                f"    nxt: List[Annotated['R', validators({names})]] = field(default_factory=list, metadata=alias('N'))",
                "TARGET = R", "VARGS = []", "WRAP = ['N', 0, 'P', 0]"]
    else:
        out += ["@dataclass", "class W:", f"    k_f: {tp} = field(metadata=alias('W') | validators({names}))",
                "TARGET = W", "VARGS = []", "WRAP = 'W'"]
    return out


def first_dep(case: dict, v: dict) -> str:
    for f in case["fields"]:
        if f["name"] in v["deps"]:
            return f["name"]
    raise ValueError


def build(case: dict):
    key = shape_key(case)
    if key not in _classes:
        _counter[0] += 1
        name = f"verifval_{_counter[0]}"
        src = class_source(case)
        mod = types.ModuleType(name)
        mod.__file__ = f"<{name}>"
        sys.modules[name] = mod
        import linecache

        linecache.cache[mod.__file__] = (len(src), None, src.splitlines(True), mod.__file__)
        exec(compile(src, mod.__file__, "exec", dont_inherit=True), mod.__dict__)   # not under this file's PEP 563 future import
        _classes[key] = mod
    return _classes[key]


def well_formed(case: dict) -> bool:
    """Python's own dataclass rule: no field without default after a field with default."""
    seen_default = False
    for f in case["fields"]:
        if not f["req"]:
            seen_default = True
        elif seen_default:
            return False
    return True


class Watchdog(Exception):
    pass


def run_case(case: dict, timeout_s: float = 5.0) -> dict:
    """The real call; non-termination (unbounded recursion) becomes a verdict."""
    from apischema import ValidationError, deserialize

    from . import bridge

    mod = build(case)
    mod.CALLS.clear()
    mod.CTOR[0] = 0
    mod.OUT.clear()
    mod.OUT.update({v["name"]: v["out"] == "fail" for v in case["vals"] + list(case.get("ext", []))})
    data = {}
    for f in case["fields"]:
        if f["st"] == "valid":
            data[f["alias"]] = 1
        elif f["st"] == "invalid":
            data[f["alias"]] = "x"
    out: Dict[str, Any]
    wrap = [mod.WRAP] if isinstance(mod.WRAP, str) else mod.WRAP     # path of enclosing keys down to the object
    if wrap is not None:
        for key in reversed(wrap):
            data = [data] if isinstance(key, int) else {key: data}
    try:
        res = deserialize(mod.TARGET, data, validators=mod.VARGS) if mod.VARGS else deserialize(mod.TARGET, data)
        out = {"kind": "ok", "errs": []}
    except ValidationError as err:
        errs = bridge.enc_errors(err.errors)
        if wrap is not None:
            # the model describes the object itself: every error lies under the enclosing keys (the errors of the
            # validators attached to the enclosing position are reported AT that position: the root for the model)
            wloc = [bridge.loc_key(k) for k in wrap]          # as enc_errors spells keys and indices
            anchor = wloc[:2] if len(wloc) > 1 else wloc      # where the attached validators report
            def rebase(loc):
                if loc[:len(wloc)] == wloc:
                    return loc[len(wloc):]
                if loc == anchor:
                    return []
                return ["<outside the enclosing key>"] + loc
            errs = [[rebase(loc), rule] for loc, rule in errs]
        out = {"kind": "verr", "errs": errs}
    except RecursionError:
        out = {"kind": "nonterm", "errs": []}
    except Exception as exc:
        out = {"kind": "exc", "exc": type(exc).__name__ + ": " + str(exc)[:200], "errs": []}
    out["ran"] = list(mod.CALLS)[:50]
    out["constructed"] = mod.CTOR[0]
    return out


def verdict(case_rec: dict, out: dict) -> str:
    """Compare with what Validators.tla predicts (ran, errs, constructed)."""
    if out["kind"] == "nonterm":
        return "nontermination"
    if out["kind"] == "exc":
        return "escape"
    exp_errs = sorted((tuple(loc), rule) for loc, rule in case_rec["errs"])
    got_errs = sorted((tuple(loc), rule) for loc, rule in out["errs"])
    if out["ran"] != list(case_rec["ran"]):
        return "ran"
    if (out["kind"] == "ok") != (not exp_errs):
        return "accept"
    if exp_errs != got_errs:
        return "errors"
    if out["constructed"] != case_rec["constructed"]:
        return "constructed"
    return "ok"
