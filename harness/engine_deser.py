"""Engine shared by the properties decided on the deserialization model (C01, C02, C03):
  1. TLC checks the invariants of the reference semantics over the bounded universe
     (spec/mc/MC_Deser.tla) and emits every case with the outcome the spec predicts;
  2. spec -> code: every emitted case is replayed in the real code and compared;
  3. code -> spec: random deep types/data run in the real code are recorded and validated by
     the TLC trace spec (spec/trace/Trace_Deser.tla).
A property owns a set of verdict clauses; a mismatch under another clause belongs to another
property and is only counted."""
from __future__ import annotations

import json
import shutil
from typing import Dict, Iterable, List, Set

from . import bridge, common, drive_deser, record, replay_deser, tlc

CLAUSES = {
    "C01": {"rejected-conforming", "accepted-nonconforming", "image"},
    "C02": {"errors-missing", "errors-spurious", "errors-duplicate", "errors-order", "errors-escape"},
    "C03": {"escape", "errors-escape", "mutated"},
    # on union types, every observable belongs to the union property
    "C13": {"rejected-conforming", "accepted-nonconforming", "image", "errors-missing", "errors-spurious", "escape"},
    # under coercion, likewise
    "C14": {"rejected-conforming", "accepted-nonconforming", "image", "errors-missing", "errors-spurious", "escape"},
}

MC_CFG = """CONSTANT Tier = "%s"
CONSTANT Coerce = FALSE
CONSTANT Deviations = {}
CONSTANT SchemaGaps = {"flattened", "mapkeys", "discriminated", "patoverlap"}
CONSTANT VocabularyGaps = {}
SPECIFICATION Spec
INVARIANT ResultShape
INVARIANT LocsInData
INVARIANT AdditionalWidens
INVARIANT NoUnexpectedWhenAllowed
INVARIANT CoerceWidens
INVARIANT DispatchEqSequential
"""


def identity_coercer(cls, data):
    """A custom coercer that coerces nothing: its result is still type-checked, so
    deserialize(T, d, coerce=identity_coercer) must behave exactly as strict mode (C14)."""
    return data


def case_summary(c: dict, out: dict) -> dict:
    return {"type": bridge.type_expr(c["type"]), "data": c["data"], "opts": {k: v for k, v in c["opts"].items() if k != "ali"},
            "expected": c.get("expect"), "actual": {k: out[k] for k in ("kind", "v", "errs", "exc") if k in out}}


def run(prop: str, rep: common.Report, *, exotic: bool = False, coerce: bool = False,
        tiers_quick=("d0", "d1"), tiers_thorough=("d0", "d1", "d2"), only_unions: bool = False,
        identity_coercer_pass: bool = False, negative: dict = None):
    mine = CLAUSES[prop]
    thorough = common.tier() == "thorough"
    tiers = list(tiers_thorough if thorough else tiers_quick)
    for dev, inv in (negative or {}).items():
        ntier = "u"
        if isinstance(inv, tuple):
            inv, ntier = inv
        cfg = (MC_CFG % ntier).replace("Deviations = {}", 'Deviations = {"%s"}' % dev)
        res = tlc.run_tlc("MC_Deser", cfg, workers=16, env={"EMIT": "0"}, timeout_s=3000)
        rep.set("negative_check_" + dev, res.violated or "NOT VIOLATED")
        if res.violated != inv:
            raise tlc.MachineryError(f"negative model check: deviation {dev} no longer violates {inv}")
    states = transitions = 0
    nontrivial: Set[str] = set()
    replayed = 0
    other = 0
    for t in tiers:
        cfg = (MC_CFG % t).replace("Coerce = FALSE", "Coerce = TRUE") if coerce else MC_CFG % t
        res = tlc.run_tlc("MC_Deser", cfg, workers=16, env={"EMIT": "1"}, timeout_s=3000)
        if res.violated:
            rep.violation(f"TLC: invariant {res.violated} of the reference semantics violated on tier {t}",
                          {"tlc": res.error_trace[:40]})
            continue
        states += res.distinct
        transitions += res.states
        header, cases = replay_deser.parse_emitted(res.prints)
        if only_unions:
            cases = [c for c in cases if replay_deser.has_union(c["type"], header["classes"])]
        passes = [None, identity_coercer] if identity_coercer_pass else [None]
        for c, out, vd in (x for cz in passes for x in replay_deser.replay(header, cases, custom_coercer=cz)):
            replayed += 1
            if out.get("mutated") and "mutated" in mine:
                rep.violation("input data modified by deserialize", case_summary(c, out))
            nontrivial.add(json.dumps([c["type"], c["expect"]["ok"], sorted(map(json.dumps, c["expect"]["e"]))]))
            if vd == "ok":
                if replayed % 4001 == 1:
                    rep.sample({"replayed": case_summary(c, out), "verdict": "ok"})
                continue
            if vd in mine:
                rep.violation(f"replay mismatch [{vd}] {bridge.type_expr(c['type'])} <- {json.dumps(bridge.dec_data(c['data']))}",
                              case_summary(c, out))
            else:
                other += 1
        if exotic:
            swept, bad = exotic_sweep(rep, header, cases)
            rep.add("exotic_sweep_calls", swept)
    bridge.cleanup_gen_dir()
    # ---- code -> spec
    wd = tlc.scratch_dir("verifdrv_")
    try:
        n_ctx, per = (600, 12) if thorough else (120, 10)
        rounds = 4 if thorough else 1
        validated = 0
        for r in range(rounds):
            ctxs, events = drive_deser.make_events(common.seed() * 1000 + r, n_ctx, per, exotic=exotic,
                                                   coerce=exotic or coerce)
            if only_unions:
                events = [e for e in events if replay_deser.has_union(e["type"], ctxs[e["cx"] - 1]["C"])]
            tres, mism, _ = drive_deser.validate(ctxs, events, wd)
            if not tres.ok:
                raise tlc.MachineryError("trace validation did not complete\n" + tres.raw_tail)
            validated += len(events)
            states += tres.distinct
            transitions += tres.states
            byid = {e["id"]: e for e in events}
            for e in events:
                nontrivial.add(json.dumps([e["type"], e["out"]["kind"], e["out"]["errs"]]))
                if e["out"].get("mutated") and "mutated" in mine:
                    rep.violation("input data modified by deserialize", _ev_summary(e, ctxs))
            for i, vd in mism.items():
                e = byid[i]
                if vd in mine:
                    rep.violation(f"trace mismatch [{vd}] {bridge.type_expr(e['type'])} <- {json.dumps(e['data'])[:200]}",
                                  _ev_summary(e, ctxs))
                else:
                    other += 1
            if events:
                rep.sample({"recorded_event": _ev_summary(events[0], ctxs), "verdict": mism.get(events[0]["id"], "ok")})
        bridge.cleanup_gen_dir()
    finally:
        shutil.rmtree(wd, ignore_errors=True)
    rep.set("states", states)
    rep.set("transitions", transitions)
    rep.set("traces_validated_against_impl", validated)
    rep.set("cases_replayed_in_code", replayed)
    rep.set("evaluations", replayed + validated)
    rep.set("distinct_nontrivial", len(nontrivial))
    rep.set("rule", "a case is a (type, options, datum) triple; distinct = distinct (type, outcome, error set) classes")
    rep.set("mismatches_owned_by_other_properties", other)
    rep.set("exhaustive", False)
    rep.set("universe_tiers", tiers)


def exotic_sweep(rep: common.Report, header: dict, cases: List[dict]):
    """C03, systematically: every type of the tier x every non-JSON kind, alone and nested one level, strict and
    coercing: the outcome is a value or a ValidationError, never another exception, and the input is untouched."""
    import apischema.cache

    types: dict = {}
    for c in cases:
        types.setdefault(json.dumps(c["type"], sort_keys=True), c["type"])
    u = replay_deser.Universe(header, list(types.values()))
    n = bad = 0
    for key in sorted(types):
        T = types[key]
        apischema.cache.reset()
        replay_deser.clear_typing_caches()
        u._types.clear()
        tp = u.type(T)
        for kind in bridge.EXOTIC_KINDS:
            for shape in ("alone", "list", "obj"):
                for kwargs in ({}, {"coerce": True}):
                    x = bridge.make_exotic(kind)
                    data = x if shape == "alone" else [x] if shape == "list" else {"a": x}
                    n += 1
                    out = record.run_deserialize(u.ctx, tp, data, kwargs)
                    if out["kind"] == "exc" or out.get("mutated"):
                        bad += 1
                        if bad <= 30:
                            what = "input modified" if out.get("mutated") else f"raised {out['exc']}"
                            rep.violation(f"exotic sweep [escape] deserialize({bridge.type_expr(T)}, <{kind} {shape}>, {kwargs}) {what}",
                                          {"type": bridge.type_expr(T), "type_enc": T, "kind": kind, "shape": shape, "kwargs": kwargs,
                                           "actual": out})
    return n, bad


def _ev_summary(e: dict, ctxs: List[dict]) -> dict:
    c = ctxs[e["cx"] - 1]
    return {"type": bridge.type_expr(e["type"]), "type_enc": e["type"], "classes": c["C"], "enums": c["En"],
            "opts": c["O"], "data": e["data"], "actual": e["out"]}
