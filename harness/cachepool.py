"""C09: the concrete pool behind spec/Cache.tla -- configuration knobs (one concrete operation
per value, with the code mechanism that performs it) and observations (public calls on types
sensitive to each registry).  Every history is run in a forked interpreter (pristine registries
and caches), a cold start is a forked interpreter replaying only the configuration operations."""
from __future__ import annotations

import json
import os
import sys
import traceback
from typing import Any, Callable, Dict, List, Optional, Tuple

POOL_SRC = '''
from dataclasses import dataclass, field
from typing import Optional, Union, NewType, List, Dict, Annotated
from apischema import schema, alias

@dataclass
class K:
    a_b: int = field(metadata=schema(min=0))
    n: Optional[int] = None
    d: int = 1
    s: str = "x"

class X:
    def __init__(self, v):
        self.v = v
    def __eq__(self, other):
        return type(other) is X and other.v == self.v
    def __hash__(self):
        return hash(self.v)
    def __repr__(self):
        return f"X({self.v!r})"

@dataclass
class H:
    x: X

@dataclass
class Base:
    i: int = 0

@dataclass
class Sub1(Base):
    p: int = 1

@dataclass
class Sub2(Base):
    q: str = "q"

NT = NewType("NT", int)

@dataclass
class FS:
    a: int = 0
    b: int = 0

@dataclass
class R:
    v: int = 0
    nxt: Optional["R"] = None
'''


def _upper(s: str) -> str:
    return s.upper()


def _ident(s: str) -> str:
    return s


def _prefix(s: str) -> str:
    return "p_" + s


def _custom_coercer(cls, data):
    # accepts the string "one" as 1 in addition to what is already of the class
    if cls is int and data == "one":
        return 1
    return data


def _none_type_name(tp):
    return None


class Pool:
    """Built inside the child process, after `import apischema`."""

    def __init__(self):
        import types

        mod = types.ModuleType("verifpool")
        sys.modules["verifpool"] = mod
        exec(compile(POOL_SRC, "<verifpool>", "exec"), mod.__dict__)
        self.m = mod
        self.held: Dict[str, Any] = {}
        self.orig: Dict[str, Any] = {}

    # ------------------------------------------------------------------ knobs
    def mutate(self, knob: str, val: int):
        import apischema
        from apischema import settings
        from apischema.conversions import Conversion, deserializer, reset_deserializers, reset_serializer, serializer
        from apischema.json_schema import JsonSchemaVersion
        from apischema.objects import ObjectField, set_object_fields
        from apischema.serialization import PassThroughOptions

        m = self.m
        S = settings
        simple = {
            "st.addl": (S, "additional_properties", [False, True]),
            "st.aliaser": (S, "aliaser", [_ident, _upper]),
            "st.version": (S, "json_schema_version", [JsonSchemaVersion.DRAFT_2020_12, JsonSchemaVersion.DRAFT_7]),
            "de.coerce": (S.deserialization, "coerce", [False, True]),
            "de.coercer": (S.deserialization, "coercer", [None, _custom_coercer]),
            "de.fbd": (S.deserialization, "fall_back_on_default", [False, True]),
            "de.no_copy": (S.deserialization, "no_copy", [True, False]),
            "de.odc": (S.deserialization, "override_dataclass_constructors", [False, True]),
            "de.pass_through": (S.deserialization, "pass_through", [(), (m.X,)]),
            "se.check_type": (S.serialization, "check_type", [False, True]),
            "se.fall_back_on_any": (S.serialization, "fall_back_on_any", [False, True]),
            "se.exclude_defaults": (S.serialization, "exclude_defaults", [False, True]),
            "se.exclude_none": (S.serialization, "exclude_none", [False, True]),
            "se.exclude_unset": (S.serialization, "exclude_unset", [True, False]),
            "se.no_copy": (S.serialization, "no_copy", [True, False]),
            "se.pass_through": (S.serialization, "pass_through", [PassThroughOptions(), PassThroughOptions(any=True)]),
            "er.minimum": (S.errors, "minimum", ["less than {} (minimum)", "TOO SMALL {} (minimum)"]),
            "er.missing": (S.errors, "missing_property", ["missing property", "ABSENT"]),
            "er.unexpected": (S.errors, "unexpected_property", ["unexpected property", "SURPRISE"]),
        }
        if knob in simple:
            obj, attr, values = simple[knob]
            v = values[val]
            if knob == "de.coercer" and v is None:
                from apischema.deserialization.coercion import coerce as default_coercer

                v = default_coercer
            setattr(obj, attr, v)
        elif knob == "st.camel":
            S.camel_case = bool(val)
        elif knob == "st.default_type_name":
            from apischema.type_names import default_type_name

            S.default_type_name = _none_type_name if val else default_type_name
        elif knob == "bs.type":
            S.base_schema.type = (lambda tp: apischema.schema(title="T")) if val else (lambda *_: None)
        elif knob == "bs.field":
            S.base_schema.field = (lambda tp, name, al: apischema.schema(description="F")) if val else (lambda *_: None)
        elif knob == "rg.deser_X":
            # deserializers are ADDITIVE: the knob's value is the whole registration, so start from none
            # (otherwise 1 -> 2 -> 1 re-registers an equal conversion: no change, legitimately no reset)
            if val in (1, 2):
                try:
                    reset_deserializers(m.X)
                except KeyError:
                    pass
            if val == 1:
                deserializer(Conversion(m.X, source=int, target=m.X))
            elif val == 2:
                # a recursive conversion: X from a list of X (the type becomes recursive)
                deserializer(Conversion(lambda xs: m.X(len(xs)), source=List_of(m.X), target=m.X))
            else:
                reset_deserializers(m.X)
        elif knob == "rg.ser_X":
            if val == 1:
                serializer(Conversion(lambda x: x.v, source=m.X, target=int))
            elif val == 2:
                serializer(Conversion(lambda x: str(x.v), source=m.X, target=str))
            else:
                reset_serializer(m.X)
        elif knob == "rg.fields_K":
            if val == 1:
                set_object_fields(m.K, [ObjectField("a_b", int, required=True), ObjectField("s", str, False, default="z")])
            elif val == 2:
                # a self-referencing field: the class becomes recursive
                from typing import Optional

                set_object_fields(m.K, [ObjectField("a_b", int, required=True),
                                        ObjectField("s", Optional[m.K], False, default=None)])
            else:
                set_object_fields(m.K, None)
        elif knob == "rg.type_name_K":
            apischema.type_name("Renamed" if val == 1 else None)(m.K)
        elif knob == "rg.schema_K":
            apischema.schema(min_props=1 if val == 1 else None, max_props=None if val == 1 else 9)(m.K)
        elif knob == "ca.set_size":
            import apischema.cache

            # the harness's reset counter sits among the cached functions: not a function to resize
            extras = [c for c in apischema.cache._cached if not hasattr(c, "__wrapped__")]
            for c in extras:
                apischema.cache._cached.remove(c)
            try:
                apischema.cache.set_size(64 if val == 1 else 256)
            finally:
                apischema.cache._cached.extend(extras)
        elif knob == "rg.schema_NT":
            apischema.schema(min=3 if val == 1 else 5)(m.NT)
        elif knob == "rg.alias_K":
            apischema.alias(_upper if val == 1 else _prefix)(m.K)
        elif knob == "rg.order_K":
            from apischema import order

            (order({"s": order(-1)}) if val == 1 else order(["s", "d", "a_b"]))(m.K)
        elif knob == "rg.validator_K":
            from apischema import ValidationError, validator

            def check(self: m.K):
                if self.a_b > 5:
                    raise ValidationError("a_b too big")

            validator(owner=m.K)(check)
        elif knob == "rg.depreq_K":
            from apischema.dependencies import dependent_required

            dependent_required({"n": ["s"]}, owner=m.K)
        elif knob == "rg.discr_Base":
            apischema.discriminator("kind")(m.Base)
        elif knob == "rg.serialized_K":
            from apischema import serialized

            def extra(self: m.K) -> int:
                return self.a_b + 100

            serialized(owner=m.K)(extra)
        elif knob == "rg.fieldsset_FS":
            from apischema.fields import with_fields_set

            with_fields_set(m.FS)
        else:
            raise KeyError(knob)

    # ------------------------------------------------------------------ observations
    def observe(self, obs: str, held: bool = False) -> str:
        """A JSON string describing what the public calls of this observation returned."""
        try:
            return json.dumps(self._probe(obs, held), sort_keys=True, default=repr)
        except Exception as exc:  # the probe itself must not fail
            return json.dumps({"probe_failed": type(exc).__name__, "msg": str(exc)[:200]})

    def _call(self, fn, *args, **kw):
        from apischema import ValidationError

        try:
            res = fn(*args, **kw)
            return ["ok", _norm(res)]
        except ValidationError as err:
            return ["verr", err.errors]
        except Exception as exc:
            return ["exc", type(exc).__name__]

    def _probe(self, obs: str, held: bool):
        from typing import Union

        from apischema import deserialization_method, deserialize, serialization_method, serialize
        from apischema.json_schema import deserialization_schema, serialization_schema

        m = self.m
        kind, tname = obs.split(".", 1)
        tp = {"K": m.K, "X": m.X, "H": m.H, "Base": m.Base, "NT": m.NT, "FS": m.FS, "R": m.R,
              "UIS": Union[int, str], "USI": Union[str, int], "LX": List_of(m.X)}[tname]
        datas = {
            "K": [{"a_b": 1, "n": None, "s": "y"}, {"a_b": -1, "zz": 0}, {"aB": 2, "A_B": 3, "p_a_b": 4, "s": 1},
                  {"a_b": "one", "n": 3}, {"a_b": 9}, {}, {"a_b": 1, "s": {"a_b": 2, "s": None}}],
            "X": [1, "abc", None, [[], [[]]]], "H": [{"x": 1}, {"x": "ab"}], "LX": [[1, 2], ["a"]],
            "Base": [{"kind": "Sub1", "i": 1, "p": 2}, {"kind": "Sub2"}, {"i": 3}],
            "NT": [4, 6, 1], "FS": [{"a": 1}, {}], "R": [{"v": 1, "nxt": {"v": 2}}],
            "UIS": ["1", 1], "USI": ["1", 1],
        }[tname]
        values = {
            "K": lambda: [m.K(1, None, 1, "x"), m.K(7, 3, 2, "y")],
            "X": lambda: [m.X(3)], "H": lambda: [m.H(m.X(4))], "LX": lambda: [[m.X(1), m.X(2)]],
            "Base": lambda: [m.Sub1(1, 2), m.Sub2(3, "z")],
            "NT": lambda: [4], "FS": lambda: [m.FS(1), m.FS()], "R": lambda: [m.R(1, m.R(2))],
            "UIS": lambda: [1, "a"], "USI": lambda: [1, "a"],
        }[tname]
        coerce_kw = {"coerce": True} if tname in ("UIS", "USI") else {}
        if kind == "d":
            if held:
                meth = self.held[obs]
                return [self._call(meth, d) for d in datas]
            return [self._call(deserialize, tp, d, **coerce_kw) for d in datas]
        if kind == "s":
            if held:
                meth = self.held[obs]
                return [self._call(meth, v) for v in values()]
            if obs in HOLDABLE:      # same shape as the held method's probe
                return [self._call(serialize, tp, v) for v in values()]
            return [self._call(serialize, tp, v) for v in values()] + [self._call(serialize, v) for v in values()]
        if kind == "ds":
            return [self._call(deserialization_schema, tp), self._call(deserialization_schema, tp, all_refs=True)]
        if kind == "ss":
            return [self._call(serialization_schema, tp), self._call(serialization_schema, tp, all_refs=True)]
        if kind == "of":
            # the public getters, which other modules import BY NAME (their reference to the cached
            # function is not the module attribute that cache.set_size rebinds)
            from apischema.objects import get_alias, object_fields

            def fields_view():
                return [[f.name, f.alias, f.required] for f in object_fields(tp).values()]

            return [self._call(fields_view), self._call(lambda: sorted(str(getattr(get_alias(tp), n)) for n in object_fields(tp)))]
        raise KeyError(obs)

    def hold(self, obs: str):
        from typing import Union

        from apischema import deserialization_method, serialization_method

        m = self.m
        kind, tname = obs.split(".", 1)
        tp = {"K": m.K, "X": m.X, "H": m.H, "Base": m.Base, "NT": m.NT, "FS": m.FS, "R": m.R}[tname]
        try:
            self.held[obs] = deserialization_method(tp) if kind == "d" else serialization_method(tp)
        except Exception as exc:
            exc_cls = type(type(exc).__name__, (Exception,), {})

            def failing(_):
                raise exc_cls()

            self.held[obs] = failing


def List_of(tp):
    from typing import List

    return List[tp]


def _norm(res: Any) -> Any:
    if isinstance(res, (dict, list, str, int, float, bool)) or res is None:
        return res
    return repr(res)


KNOBS: Dict[str, dict] = {
    # knob: values settable (index into the concrete tables above), mechanism per value
    "st.addl": {"vals": [0, 1], "mech": "meta"},
    "st.aliaser": {"vals": [0, 1], "mech": "meta"},
    "st.camel": {"vals": [0, 1], "mech": "meta"},
    "st.version": {"vals": [0, 1], "mech": "meta"},
    "st.default_type_name": {"vals": [0, 1], "mech": "meta"},
    "de.coerce": {"vals": [0, 1], "mech": "meta"},
    "de.coercer": {"vals": [0, 1], "mech": "meta"},
    "de.fbd": {"vals": [0, 1], "mech": "meta"},
    "de.no_copy": {"vals": [0, 1], "mech": "meta"},
    "de.odc": {"vals": [0, 1], "mech": "meta"},
    "de.pass_through": {"vals": [0, 1], "mech": "meta"},
    "se.check_type": {"vals": [0, 1], "mech": "meta"},
    "se.fall_back_on_any": {"vals": [0, 1], "mech": "meta"},
    "se.exclude_defaults": {"vals": [0, 1], "mech": "meta"},
    "se.exclude_none": {"vals": [0, 1], "mech": "meta"},
    "se.exclude_unset": {"vals": [0, 1], "mech": "meta"},
    "se.no_copy": {"vals": [0, 1], "mech": "meta"},
    "se.pass_through": {"vals": [0, 1], "mech": "meta"},
    "er.minimum": {"vals": [0, 1], "mech": "plainattr"},
    "er.missing": {"vals": [0, 1], "mech": "plainattr"},
    "er.unexpected": {"vals": [0, 1], "mech": "plainattr"},
    "bs.type": {"vals": [0, 1], "mech": "plainattr"},
    "bs.field": {"vals": [0, 1], "mech": "plainattr"},
    "rg.deser_X": {"vals": [0, 1, 2], "mech": {0: "delitem", 1: "setitem", 2: "setitem"}},
    "rg.ser_X": {"vals": [0, 1, 2], "mech": {0: "delitem", 1: "setitem", 2: "setitem"}},
    "rg.fields_K": {"vals": [0, 1, 2], "mech": {0: "delitem", 1: "setitem", 2: "setitem"}},
    "rg.type_name_K": {"vals": [1, 2], "mech": "setitem"},
    "rg.schema_K": {"vals": [1, 2], "mech": "plaindict"},
    "rg.schema_NT": {"vals": [1, 2], "mech": "plaindict"},
    "rg.alias_K": {"vals": [1, 2], "mech": "setitem"},
    "rg.order_K": {"vals": [1, 2], "mech": "setitem"},
    "rg.validator_K": {"vals": [1], "mech": "inplace"},
    "rg.depreq_K": {"vals": [1], "mech": "inplace"},
    "rg.discr_Base": {"vals": [1], "mech": "setitem"},
    "rg.serialized_K": {"vals": [1], "mech": "inplace"},
    "rg.fieldsset_FS": {"vals": [1], "mech": "classset"},
    # apischema.cache.set_size(n): the caches are rebuilt (empty): as good as a reset -- and later resets must still work
    "ca.set_size": {"vals": [1, 2], "mech": "meta"},
}

OBS = ["of.K", "d.K", "s.K", "ds.K", "ss.K", "d.X", "s.X", "ds.X", "ss.X", "d.H", "s.H", "d.LX", "d.Base", "s.Base", "ds.Base",
       "d.NT", "ds.NT", "d.FS", "s.FS", "d.R", "s.R", "d.UIS", "d.USI"]
# Union[int, str] and Union[str, int] are equal and hash-equal: one cache key
KEY = {o: o for o in OBS}
KEY["d.USI"] = "d.UIS"
HOLDABLE = ["d.K", "s.K", "d.X", "s.X"]


def mech_of(knob: str, val: int) -> str:
    mm = KNOBS[knob]["mech"]
    return mm if isinstance(mm, str) else mm[val]


# ---------------------------------------------------------------------------------------------
# running histories in forked interpreters


def run_history(ops: List[dict], repo: str = "/repo") -> List[Optional[str]]:
    """Run one history in a forked child; returns, per op, the observation result (None for
    operations that observe nothing)."""
    r, w = os.pipe()
    pid = os.fork()
    if pid == 0:
        os.close(r)
        out: List[Optional[str]] = []
        try:
            pool = Pool()
            import apischema.cache

            resets = [0]

            class _Sentinel:
                """Registered among the cached functions: every reset(), however the function is
                referenced by its caller, clears it -- and is counted."""

                @staticmethod
                def cache_clear():
                    resets[0] += 1

            apischema.cache._cached.append(_Sentinel)
            for op in ops:
                kind = op["op"]
                if kind == "mutate":
                    try:
                        before = resets[0]
                        pool.mutate(op["knob"], op["val"])
                        out.append("reset" if resets[0] > before or op["knob"] == "ca.set_size" else "noreset")
                    except Exception as exc:
                        out.append("mutation-failed:" + type(exc).__name__ + ":" + str(exc)[:100])
                elif kind == "observe":
                    out.append(pool.observe(op["obs"]))
                elif kind == "hold":
                    pool.hold(op["obs"])
                    out.append(None)
                elif kind == "callheld":
                    out.append(pool.observe(op["obs"], held=True))
                elif kind == "reset":
                    apischema.cache.reset()
                    out.append(None)
            payload = json.dumps(out)
        except BaseException:
            payload = json.dumps({"crash": traceback.format_exc()[-1500:]})
        with os.fdopen(w, "w") as fh:
            fh.write(payload)
        os._exit(0)
    os.close(w)
    with os.fdopen(r) as fh:
        data = fh.read()
    os.waitpid(pid, 0)
    res = json.loads(data)
    if isinstance(res, dict):
        raise RuntimeError("history runner crashed: " + res["crash"])
    return res
