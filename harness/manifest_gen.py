"""Regenerates /verif/MANIFEST.json from the table below (kept valid at all times)."""
import json
import os

VERIF = os.path.dirname(os.path.dirname(os.path.abspath(__file__)))

BASELINE_CMD = ("cd /repo && /venv/bin/python -m pytest -ra -q -p no:cacheprovider --timeout=900 "
                "--continue-on-collection-errors")

DESER_NOTE = ("Trusted: TLC, the reading of the docs encoded in spec/DataModel.tla, Python's own re/int/float "
              "for string attributes, the bridge (harness/bridge.py) that builds real classes from the encoding. "
              "Bounded universe (spec/Universe.tla) + seeded random deep types beyond it.")

CHECKS = {
    "C01": dict(
        category="model_checking",
        text="TLC evaluates the reference data-model semantics (Conforms/Image) over a bounded universe of types x "
             "type-directed data x options, checks its internal laws in every state, and emits every case with the "
             "predicted outcome; each case is replayed through the real deserialize (accept/reject + typed image with "
             "runtime classes). Conversely random deep class tables/types/data run through the real code are recorded "
             "and validated by a TLC trace spec against the same operators.",
        design_ref="7 C01", technique="TLA+ reference semantics, TLC bounded-exhaustive + spec->code replay + code->spec trace validation",
        note=DESER_NOTE),
    "C02": dict(
        category="model_checking",
        text="Same model as C01; the compared observable is the set of (loc, rule) entries of ValidationError.errors: "
             "every violation the spec derives must be reported at its location (required set), nothing outside "
             "required+allowed may be reported, no duplicates outside unions, and the list must follow the tree order.",
        design_ref="7 C02", technique="TLA+ error semantics (Errs), TLC enumeration of multi-violation data + replay + trace validation",
        note=DESER_NOTE),
    "C03": dict(
        category="model_checking",
        text="Same pipeline with coercion on/off and non JSON-shaped Python objects planted at every position: for "
             "those the spec fixes only the outcome class (value or ValidationError); any other exception, a "
             "non-computable / non JSON-serialisable errors list, or a mutated input is a violation.",
        design_ref="7 C03", technique="TLA+ outcome-class model + trace validation of recorded calls on exotic data",
        note=DESER_NOTE + " 'Any Python object' is sampled by ~20 kinds."),
}

ALL = [f"C{i:02d}" for i in range(1, 21)]


def main():
    checks = []
    for pid, c in CHECKS.items():
        checks.append({
            "property_id": pid,
            "quick_cmd": f"./check {pid} --tier quick",
            "thorough_cmd": f"./check {pid} --tier thorough",
            "evidence_file": f"/verif/evidence/{pid}.json",
            "replay_cmd_template": f"./check {pid} --replay {{path}}",
            "engine": "tlc",
            "level_claimed": {"category": c["category"], "text": c["text"], "design_ref": c["design_ref"]},
            "level_note": c["note"],
            "technique": c["technique"],
        })
    na = [{"property_id": p, "reason": "check not built yet in this round (planned: DESIGN.md section 7); not claimed until it runs"}
          for p in ALL if p not in CHECKS]
    manifest = {
        "version": 1,
        "setup_cmd": "./setup.sh",
        "hooks": {
            "guard": "APISCHEMA_VERIF",
            "enable": "no source hook is needed: ./check sets APISCHEMA_VERIF=1 and wraps apischema's public functions and "
                      "module globals from the harness side; /repo is imported from its working tree (PYTHONPATH=/repo)",
            "baseline_off_cmd": BASELINE_CMD,
            "source_commits": [],
            "add_only": True,
        },
        "engines": [{"name": "tlc", "path": "/verif/harness/tlc.py", "serves_properties": list(CHECKS),
                     "kind_free_text": "TLC 1.8 model checking of /verif/spec + conformance harness in /verif/harness"}],
        "checks": checks,
        "not_applicable": na,
        "notes": "Explicit TLA+ specification in /verif/spec; see DESIGN.md. fix: commits in /repo are listed in known_findings.json.",
    }
    with open(os.path.join(VERIF, "MANIFEST.json"), "w") as fh:
        json.dump(manifest, fh, indent=1)


if __name__ == "__main__":
    main()
