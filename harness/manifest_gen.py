"""Regenerates /verif/MANIFEST.json from the table below (kept valid at all times)."""
import json
import os

VERIF = os.path.dirname(os.path.dirname(os.path.abspath(__file__)))

BASELINE_CMD = ("cd /repo && /venv/bin/python -m pytest -ra -q -p no:cacheprovider --timeout=900 "
                "--continue-on-collection-errors")

DESER_NOTE = ("Trusted: TLC, the reading of the docs encoded in spec/DataModel.tla, Python's own re/int/float "
              "for string attributes, the bridge (harness/bridge.py) that builds real classes from the encoding. "
              "Bounded universe (spec/Universe.tla) + seeded random deep types beyond it.")

CHECKS = {
    "C01": dict(
        category="model_checking",
        text="TLC evaluates the reference data-model semantics (Conforms/Image) over a bounded universe of types x "
             "type-directed data x options, checks its internal laws in every state, and emits every case with the "
             "predicted outcome; each case is replayed through the real deserialize (accept/reject + typed image with "
             "runtime classes). Conversely random deep class tables/types/data run through the real code are recorded "
             "and validated by a TLC trace spec against the same operators.",
        design_ref="7 C01", technique="TLA+ reference semantics, TLC bounded-exhaustive + spec->code replay + code->spec trace validation",
        note=DESER_NOTE),
    "C02": dict(
        category="model_checking",
        text="Same model as C01; the compared observable is the set of (loc, rule) entries of ValidationError.errors: "
             "every violation the spec derives must be reported at its location (required set), nothing outside "
             "required+allowed may be reported, no duplicates outside unions, and the list must follow the tree order.",
        design_ref="7 C02", technique="TLA+ error semantics (Errs), TLC enumeration of multi-violation data + replay + trace validation",
        note=DESER_NOTE),
    "C03": dict(
        category="model_checking",
        text="Same pipeline with coercion on/off and non JSON-shaped Python objects planted at every position: for "
             "those the spec fixes only the outcome class (value or ValidationError); any other exception, a "
             "non-computable / non JSON-serialisable errors list, or a mutated input is a violation.",
        design_ref="7 C03", technique="TLA+ outcome-class model + trace validation of recorded calls on exotic data",
        note=DESER_NOTE + " 'Any Python object' is sampled by ~20 kinds."),
    "C11": dict(
        category="model_checking",
        text="spec/Names.tla: external names as SYMBOLIC terms (base string + sequence of aliaser applications). Layer R is "
             "the rule dyn(classAliaser(alias or name)) with the override=False exemption and the settings.aliaser default; "
             "Layer M says what each of 19 views (deserialize keys, flattened key collection, serialize keys, properties / "
             "required / dependentRequired of both schemas, locs of missing / type / validator / yielded-alias / "
             "after-discard / dependentRequired errors, GraphQL output / input / argument names and result keys) reads "
             "and applies. TLC checks OneNameAll over every (alias, override, class aliasers, per-call aliaser, "
             "settings.aliaser) x {plain, nested, flattened}; four negative checks (the two pinned defects and the two "
             "seeded shapes as deviations) must violate it. Every configuration is replayed on generated dataclasses with "
             "pairwise non-commuting real aliasers and every view compared with the evaluated term.",
        design_ref="7 C11", technique="TLA+ symbolic-term model, TLC exhaustive, replay of every configuration in 19 views",
        note="Names invalid in GraphQL ('$ref') skip the GraphQL views only."),
    "C12": dict(
        category="model_checking",
        text="spec/Conversions.tla: converters are uninterpreted wrappers, Layer M transcribes the resolution of "
             "ConversionsVisitor.visit (dynamic first, else default; next_conversion through containers / unions only; "
             "sub-conversions; field conversions; identity bypass; LSP matching; MRO lookup of serializers with the "
             "inherited tri-state; ConversionUnion / catch_value_error outcomes incl. an escaping ValueError). TLC "
             "checks the laws RejectsAsSource, IdentityBypasses, DynamicIsLocal, ContainersReach, SerializersInherited "
             "over every environment (registered sequences of <= 2 deserializers, serializer x form x inherited, "
             "registry vs default_conversion parameter, field conversion; three class levels K4 < K2 < K1) x 11 root types x 8 / 7 dynamic "
             "conversions; four deviations must break their law. Every configuration is replayed on fresh classes: "
             "deserialize outcome (value / rejection / escaping ValueError) per datum, serialize output per value, "
             "support, and both JSON schemas against the schema of the resolved plain type.",
        design_ref="7 C12", technique="TLA+ transcription of conversion resolution + laws, TLC exhaustive, replay of every configuration",
        note="Generic (TypeVar) and recursive conversions, dataclass_input_wrapper / as_str helpers are outside the pool."),
    "C13": dict(
        category="model_checking",
        text="spec/DataModel.tla carries, next to the reference rule 'first accepting alternative', an "
             "implementation-shaped layer for unions (strategy selection Optional / by-type dispatch / in order, and "
             "their execution, discriminator dispatch). TLC checks DispatchEqSequential (same acceptance, same image up "
             "to the int/float ambiguity, errors within the sandwich) for every ordered pair and sampled triples of "
             "alternatives from a pool with alternatives sharing a JSON type x type-directed data; a negative check "
             "requires the by-type dispatch of the pinned tree (deviation nofloatfallback) to violate it. Every case is "
             "replayed in the real code; recorded random union types are validated by the TLC trace spec.",
        design_ref="7 C13", technique="TLA+ two-layer union semantics, TLC refinement invariant + replay + trace validation",
        note=DESER_NOTE + " Serialization side of unions (first matching class, discriminator key, TaggedUnion) is decided with C04/C05."),
    "C14": dict(
        category="model_checking",
        text="Same pipeline with the documented coercion table (CoerceTo) as part of the reference semantics: TLC checks "
             "CoerceWidens (strict acceptance implies acceptance under coercion) over the universes enriched with "
             "numeric strings, boolean words and ''; every case is replayed with coerce=True, and every strict case is "
             "replayed again with an identity custom coercer (whose result is type-checked, so it must equal strict mode).",
        design_ref="7 C14", technique="TLA+ coercion table in the reference semantics, TLC invariant + replay (coerce=True, custom coercer)",
        note=DESER_NOTE),
    "C04": dict(
        category="model_checking",
        text="spec/Serialization.tla gives the JSON image Ser(T, v) (aliases, collections as lists, enums by value, serialized "
             "methods, flattened/properties fields merged, the omission rule for Undefined / None / default / "
             "condition-matching values under exclude_* options, unions by first matching class, discriminator key). TLC "
             "checks JsonOnly and AnyEqTyped over (type, options, typed value) cases and emits the predicted image of each; "
             "every case is replayed through the real serialize (typed and untyped) and compared as JSON mappings.",
        design_ref="7 C04", technique="TLA+ reference serialization semantics, TLC enumeration + spec->code replay",
        note="Trusted: TLC, the reading of the docs encoded in spec/Serialization.tla and spec/DataModel.tla, the bridge building real classes/values. Values are typed images of the conforming data of the bounded deserialization universe." + " The 'unset' clause of the omission rule is decided with C15, key order with C16."),
    "C05": dict(
        category="model_checking",
        text="TLC checks RoundTrip -- RD(T, Ser(T, v)) = v -- between the two reference semantics on the bijective fragment "
             "(predicate Bijective: no asymmetric skip, serialized method, __post_init__, competing union alternatives) over "
             "the universe; every emitted case is then round-tripped in the real code (directly and through json.dumps / "
             "loads, same aliaser / additional_properties both ways) and compared with runtime classes. Standard-library "
             "converted types are round-tripped on sample pools inside containers, Optional, unions and dataclass fields.",
        design_ref="7 C05", technique="TLC theorem between the two TLA+ semantics + real round-trip replay",
        note="Trusted: TLC, the reading of the docs encoded in spec/Serialization.tla and spec/DataModel.tla, the bridge building real classes/values. Values are typed images of the conforming data of the bounded deserialization universe."),
    "C06": dict(
        category="model_checking",
        text="spec/JsonSchema.tla transcribes the builder's keyword emission (SchemaOf) and gives the draft 2020-12 semantics of "
             "exactly those keywords (Validates). TLC checks SchemaAgrees -- Validates(SchemaOf(T), d) = Conforms(T, d) -- over "
             "the deserialization universe on the common domain, with three known design gaps excluded (flattened objects, "
             "constrained mapping keys, discriminated unions), each required to violate it once re-included (negative "
             "checks). Every case is replayed three ways: real deserialize, jsonschema on the real "
             "deserialization_schema (same additional_properties / aliaser), and the model's acceptance; the real schema "
             "must accept what the model of the builder accepts, and agree with deserialize outside the known gaps.",
        design_ref="7 C06", technique="TLA+ schema builder transcription + keyword semantics, TLC agreement invariant, 3-way replay with jsonschema",
        note="Trusted: TLC, jsonschema as the independent Draft 2020-12 semantics, the transcription of the builder in spec/JsonSchema.tla. Common domain as stated in the property; fall_back_on_default and coercion have no schema counterpart."),
    "C07": dict(
        category="model_checking",
        text="TLC checks SerValidates -- the image Ser(T, v) validates against SchemaOf('s', T) -- over the serialization "
             "universe x exclude_none / exclude_defaults / aliaser / additional_properties (required-ness of fields via the "
             "skippable predicate, of serialized methods via their return type). Every case is serialized by the real code "
             "under the same GLOBAL settings and validated by jsonschema against the real serialization_schema; the real "
             "verdict must equal the model's and be 'valid' outside the known gaps.",
        design_ref="7 C07", technique="TLA+ serialization schema model, TLC invariant, replay with jsonschema under global settings",
        note="Trusted: TLC, jsonschema as the independent Draft 2020-12 semantics, the transcription of the builder in spec/JsonSchema.tla. Common domain as stated in the property; fall_back_on_default and coercion have no schema counterpart."),
    "C08": dict(
        category="model_checking",
        text="The specification has no notion of no_copy, override_dataclass_constructors, precomputed methods, check_type "
             "or pass-through: its predicted outcome is what every option vector must produce. Every case TLC enumerates "
             "for the deserialization and serialization models is replayed under each option vector (no_copy x "
             "override_dataclass_constructors x function/precomputed method x deserialization pass_through; check_type, "
             "no_copy, serialization_method, PassThroughOptions flag vectors completed by serialization_default) and "
             "compared with the prediction; container identity is observed for the copy rules and inputs are fingerprinted. "
             "Deserialization pass_through is also replayed with data already holding instances of the passed-through "
             "classes (injected wherever the predicted image is an instance: through unions, lists, mapping values).",
        design_ref="7 C08", technique="TLA+ models of C01/C04 as option-independent oracle, replay under every option vector",
        note="Trusted: TLC, the reading of the docs encoded in spec/Serialization.tla and spec/DataModel.tla, the bridge building real classes/values. Values are typed images of the conforming data of the bounded deserialization universe." + " Identity observed on mutable containers only; Any positions are exempt from the no-sharing rule."),
    "C09": dict(
        category="model_checking",
        text="spec/Cache.tla: configuration knobs (every settings attribute, every registry of the sensitive classes) with "
             "one Mutate action per code mechanism, Observe / Hold / CallHeld / ResetAll. TLC checks NoStale and "
             "NeverObservedStale over every history up to length 3 (cache a function of cfg, history hidden by a VIEW) "
             "and requires each non-resetting mechanism of the pinned tree and the Union-key conflation to violate them "
             "(negative checks). spec->code: the histories TLC enumerates (observe-mutate-observe exhaustively, sampled "
             "others, random ones of length 16) run in forked interpreters over a concrete pool of 36 knobs x 22 "
             "observations; every observation is compared with a cold start (fresh interpreter replaying only the "
             "configuration). code->spec: each run logs whether cache.reset() was called per operation and whether each "
             "observation was fresh; a TLC trace spec steps the model with it.",
        design_ref="7 C09", technique="TLA+ state machine over histories, TLC exhaustive + negative checks, forked-interpreter replay vs cold start, trace validation",
        note="Abstract artefact = dependency projection; dependencies measured by first-order toggling in cold starts; "
             "value-level comparison is real-vs-real (same interpreter binary, fresh process)."),
    "C10": dict(
        category="model_checking",
        text="spec/Validators.tla is a state machine at the grain of ObjectMethod.deserialize + validate() (field loop, "
             "gating, one Run step per validator, discard) together with the reference rule of the property; TLC checks "
             "that the machine refines the rule (RunIff, AtMostOnce, MergedOnce, ConstructRule) for every class shape x "
             "datum x outcome vector within bounds, and termination as a temporal property (call log hidden by a VIEW). "
             "Every enumerated case, plus TLC-simulated cases with up to 4 fields / 4 validators, is replayed on a "
             "generated class whose validators log their invocation; recorded executions of randomly generated classes "
             "(inheritance, method/property/InitVar dependencies) are validated by a TLC trace spec. Validators not bound "
             "to the class are a phase of the machine, attached by argument, Annotated, field metadata or on the "
             "back-reference of a recursive class (extmode).",
        design_ref="7 C10", technique="TLA+ state machine + refinement invariants + liveness, spec->code replay, code->spec trace validation",
        note="Validators' pass/fail outcomes are inputs of the case. Dependency discovery is bound through generated "
             "source shapes only."),
    "C15": dict(
        category="model_checking",
        text="spec/FieldsSet.tla: one instance and its tracked set, actions Construct / Deser / SetAttr / SetFields / "
             "Unset / Replace mirroring apischema/fields.py and dataclasses.replace, over class shapes (decorated single "
             "class, required / init=False / InitVar / default_as_set fields, decorated or undecorated base and subclass). "
             "TLC checks the set laws (TypeOK, DeserLaw = present keys + default_as_set + init=False, ExcludeUnsetSound) "
             "over every operation sequence within the bound; every reachable history (each prefix is a history) and "
             "long simulated ones are replayed on real classes and fields_set(obj) plus the keys of serialize with "
             "exclude_unset True/False (typed and untyped) are compared after the last step. The instance replace() was "
             "called on is part of the state (orig): the action property OrigFrozen says nothing done later changes it, the "
             "deviation ShareOnReplace is a negative check, and the original's set / serialization are replayed too.",
        design_ref="7 C15", technique="TLA+ state machine over operation histories, TLC exhaustive + simulation, step-wise replay",
        note="Values are small ints, aliases are names. The undecorated-subclass corner is a sandwich (provided <= set <= stored fields)."),
    "C16": dict(
        category="model_checking",
        text="spec/Ordering.tla: a literal transcription of sort_by_order (Layer M) and the documented rules as laws on "
             "the result (Permutation, RootsSorted, BlocksContiguous, AttachedSides). TLC checks, for EVERY ordering "
             "specification over 3 (quick) / 4 (thorough) elements -- order values, after / before any element or a "
             "dangling name, class-level overrides on a base class and on the class -- that the transcription obeys the "
             "laws on well-formed specs and never duplicates; a negative check shows it loses orphans (known finding). "
             "Every spec is replayed on a generated class and the order observed in four views: serialize keys, both "
             "JSON schemas' properties, GraphQL fields.",
        design_ref="7 C16", technique="TLA+ transcription + laws, TLC exhaustive over small sizes, replay in 4 views",
        note="Elements are int fields / int serialized methods with single-letter names. Ill-formed (dangling / cyclic) "
             "specs: losing elements is the listed known finding F-order-orphans."),
    "C17": dict(
        category="model_checking",
        text="spec/SchemaRefs.tla: the reference-counting pass as a function of the type and the direction (RefCount, "
             "Refs, Recursive, DiscriminatedMembers; direction-specific field sets: read-only fields only in "
             "serialization, InitVar only in deserialization). TLC checks AllRefsRule (all_refs = every named type "
             "reachable), RefsMonotone, OnlyRule (a name is extracted iff referenced more than once, recursive or a "
             "discriminated member), Terminates over every universe type, and emits (type, direction, names) cases; "
             "each is replayed on the real generators: $defs names equal, every $ref resolves, 2020-12 / 2019-09 / "
             "draft-07 outputs valid against their own meta-schema, definitions_schema equal to the inline $defs, "
             "ref_factory honoured, generation terminates (alarm). Python-side scenarios: name clashes refused, "
             "type_name overrides, definitions_schema over several entries with a conversion.",
        design_ref="7 C17", technique="TLA+ model of the ref-counting pass, TLC exhaustive over the universe, replay with meta-schema validation",
        note="The schema BODY is C06/C07's business; here names, closure, validity, finiteness."),
    "C18": dict(
        category="model_checking",
        text="spec/Dialects.tla: Convert(S, V) transcribes to_json_schema_2019_09 / to_json_schema_7 / to_open_api_3_0 applied at "
             "every nesting level of the abstract schema SchemaOf(T); ValidatesV gives each dialect's validation rules "
             "(array-form items / additionalItems, dependencies, nullable; keywords outside the dialect are ignored). TLC "
             "checks DialectEquivalent (same accepted instances as the 2020-12 schema, up to what OpenAPI 3.0 drops) and "
             "VocabularyOnly at every level, with the known leaks excluded and required to violate it otherwise. Every case "
             "is replayed: the real *_schema(T, version=V) is validated on the datum by jsonschema's Draft7 / Draft2019-09 "
             "validators (OpenAPI 3.0 through its documented mapping), compared with the real 2020-12 schema and with the "
             "model; vocabulary and reference prefixes are scanned at every level, also in the definitions that "
             "definitions_schema merges for a class listed on both the deserialization and the serialization side.",
        design_ref="7 C18", technique="TLA+ dialect conversion + per-dialect semantics, TLC invariants, replay with per-draft validators",
        note="OpenAPI 3.0 has no executable oracle: validated through the mapping written in harness/props/c18.py:oas30_to_2020."),
    "C19": dict(
        category="model_checking",
        text="spec/GraphQL.tla: (1) the type mapping Ty (GraphQL type expression with nullability), input-field / argument "
             "nullability and defaults, the transitive interface closure; (2) GSer, execution of a query selecting every "
             "field (no omission, enums by name, Undefined as null, runtime class decides); (3) the argument machine: "
             "ArgR (the rule: deserialized as deserialize would, omitted -> Python default, explicit null -> None for "
             "Optional) against ArgM (transcription of resolver_resolve with graphql-core's kwargs). TLC checks ArgLaw, "
             "ArgSound, InterfacesLaw, NullabilityLaw, IdRoundTrip, ResLaw (a raising resolver under error_handler unset / None / custom, "
             "sync and async resolvers and handlers); seven deviations must break their law. ID types (ID and a "
             "NewType listed in id_types) and id_encoding (IdEnc: encode after serialization, DecodeIds before "
             "deserialization, at every ID position of the supplied datum) are part of the model. Every emitted case is "
             "replayed on a generated module under two aliaser / enum_aliaser settings and a third with id_encoding: "
             "graphql.validate_schema, the type map (kinds, field and argument types, defaults, interfaces, enum values), "
             "execution results, the value each resolver receives for every (parameter declaration, omitted | null | "
             "datum) through two channels (query literal, variable).",
        design_ref="7 C19", technique="TLA+ model of type mapping + argument machine, TLC exhaustive over the pools, replay with graphql-core",
        note="One data model (20 classes); subscriptions, relay are not modelled. Known finding F-gql-enum-default."),
    "C20": dict(
        category="model_checking",
        text="spec/RecCheck.tla models is_recursive / RecursiveChecker.visit with one action per access to the shared "
             "recursion cache. TLC checks CacheSound, ResultSound, mutual exclusion, deadlock freedom and termination "
             "(fairness) over every interleaving of 2-3 threads on a pool of type graphs; the lock-free design is "
             "required to violate CacheSound (negative check). spec->code: interleavings generated by TLC from the "
             "lock-free design are forced on real threads through a baton-controlled cache (infeasible or sound). "
             "code->spec: free-running threads (1 us switch interval, fresh random recursive types, public "
             "deserialize) are logged and validated by a TLC trace spec against the locked model; results are "
             "compared with a sequential baseline.",
        design_ref="7 C20", technique="TLA+ state machine, TLC all interleavings + adversarial schedule replay + trace validation",
        note="Only the instrumented shared accesses (recursion cache dict operations, the analysis lock) are scheduled; "
             "races inside C-level functools.lru_cache and free-threaded builds are out of reach."),
}

ALL = [f"C{i:02d}" for i in range(1, 21)]


def main():
    checks = []
    for pid, c in CHECKS.items():
        checks.append({
            "property_id": pid,
            "quick_cmd": f"./check {pid} --tier quick",
            "thorough_cmd": f"./check {pid} --tier thorough",
            "evidence_file": f"/verif/evidence/{pid}.json",
            "replay_cmd_template": f"./check {pid} --replay {{path}}",
            "engine": "tlc",
            "level_claimed": {"category": c["category"], "text": c["text"], "design_ref": c["design_ref"]},
            "level_note": c["note"],
            "technique": c["technique"],
        })
    na = [{"property_id": p, "reason": "check not built yet in this round (planned: DESIGN.md section 7); not claimed until it runs"}
          for p in ALL if p not in CHECKS]
    manifest = {
        "version": 1,
        "setup_cmd": "./setup.sh",
        "hooks": {
            "guard": "APISCHEMA_VERIF",
            "enable": "no source hook is needed: ./check sets APISCHEMA_VERIF=1 and wraps apischema's public functions and "
                      "module globals from the harness side; /repo is imported from its working tree (PYTHONPATH=/repo)",
            "baseline_off_cmd": BASELINE_CMD,
            "source_commits": [],
            "add_only": True,
        },
        "engines": [{"name": "tlc", "path": "/verif/harness/tlc.py", "serves_properties": list(CHECKS),
                     "kind_free_text": "TLC 1.8 model checking of /verif/spec + conformance harness in /verif/harness"}],
        "checks": checks,
        "not_applicable": na,
        "notes": "Explicit TLA+ specification in /verif/spec; see DESIGN.md. fix: commits in /repo are listed in known_findings.json.",
    }
    with open(os.path.join(VERIF, "MANIFEST.json"), "w") as fh:
        json.dump(manifest, fh, indent=1)


if __name__ == "__main__":
    main()
