"""Running TLC: assemble the spec modules in a scratch directory, run under `timeout`, parse
statistics, PrintT lines and coverage.  Exit status 2 of a check is reserved for machinery
failures (TLC crash / timeout / parse failure)."""
from __future__ import annotations

import glob
import os
import re
import shutil
import subprocess
import tempfile
import time
from dataclasses import dataclass, field
from typing import Dict, List, Optional

VERIF = os.path.dirname(os.path.dirname(os.path.abspath(__file__)))
SPEC_DIRS = [os.path.join(VERIF, "spec"), os.path.join(VERIF, "spec", "mc"),
             os.path.join(VERIF, "spec", "trace")]


class MachineryError(Exception):
    pass


@dataclass
class TlcResult:
    ok: bool                      # TLC finished without reporting an error
    violated: Optional[str]       # name of violated invariant / property, if any
    states: int = 0
    distinct: int = 0
    depth: int = 0
    wall_s: float = 0.0
    prints: List[str] = field(default_factory=list)   # PrintT output lines
    coverage: Dict[str, int] = field(default_factory=dict)  # action -> states found
    raw_tail: str = ""
    error_trace: List[str] = field(default_factory=list)
    returncode: int = 0


def scratch_dir(prefix: str = "veriftlc_") -> str:
    return tempfile.mkdtemp(prefix=prefix)


def assemble(workdir: str):
    for d in SPEC_DIRS:
        for f in glob.glob(os.path.join(d, "*.tla")):
            shutil.copy(f, workdir)


def run_tlc(module: str, cfg_text: str, *, workers: int = 16, env: Optional[dict] = None,
            timeout_s: int = 1800, simulate: Optional[str] = None, depth: Optional[int] = None,
            seed: Optional[int] = None, coverage: bool = False, deadlock: bool = False,
            extra_files: Optional[Dict[str, str]] = None, keep: bool = False,
            workdir: Optional[str] = None, dfs: bool = False) -> TlcResult:
    own = workdir is None
    wd = workdir or scratch_dir()
    try:
        assemble(wd)
        for name, text in (extra_files or {}).items():
            with open(os.path.join(wd, name), "w") as fh:
                fh.write(text)
        cfg = os.path.join(wd, module + "_run.cfg")
        with open(cfg, "w") as fh:
            fh.write(cfg_text)
        cmd = ["timeout", str(timeout_s), "java", "-XX:+UseParallelGC", "-Xmx8g"]
        if dfs:
            cmd.append("-Dtlc2.tool.queue.IStateQueue=StateDeque")
        cmd += ["-cp", "/opt/veriftools/tla/tla2tools.jar:/opt/veriftools/tla/CommunityModules-deps.jar",
                "tlc2.TLC", "-workers", str(workers), "-metadir", os.path.join(wd, "meta"),
                "-noGenerateSpecTE", "-config", cfg]
        if not deadlock:
            cmd.append("-deadlock")   # TLC's flag *disables* deadlock checking
        if simulate:
            cmd += ["-simulate", simulate]
        if depth is not None:
            cmd += ["-depth", str(depth)]
        if seed is not None:
            cmd += ["-seed", str(seed)]
        if coverage:
            cmd += ["-coverage", "1"]
        cmd.append(os.path.join(wd, module + ".tla"))
        e = dict(os.environ)
        e.update(env or {})
        t0 = time.time()
        proc = subprocess.run(cmd, cwd=wd, env=e, stdout=subprocess.PIPE, stderr=subprocess.STDOUT,
                              text=True, errors="replace")
        wall = time.time() - t0
        return parse_output(proc.stdout, proc.returncode, wall)
    finally:
        if own and not keep:
            shutil.rmtree(wd, ignore_errors=True)


_STATS = re.compile(r"(\d+) states generated, (\d+) distinct states found")
_DEPTH = re.compile(r"The depth of the complete state graph search is (\d+)")
_INV = re.compile(r"Error: Invariant (\S+) is violated")
_PROP = re.compile(r"Error: (?:Action property|Temporal properties?) (\S*) ?(?:is|were) violated")
_COV = re.compile(r"^<(\w+) line \d+, col \d+ to line \d+, col \d+ of module (\w+)>: (\d+):(\d+)")


def parse_output(out: str, rc: int, wall: float) -> TlcResult:
    res = TlcResult(ok=False, violated=None, wall_s=wall, returncode=rc)
    lines = out.splitlines()
    errs = [i for i, ln in enumerate(lines) if ln.startswith("Error:")]
    res.raw_tail = "\n".join(lines[errs[0]:errs[0] + 40] if errs else lines[-40:])
    in_trace = False
    for ln in lines:
        m = _STATS.search(ln)
        if m:
            res.states, res.distinct = int(m.group(1)), int(m.group(2))
        m = _DEPTH.search(ln)
        if m:
            res.depth = int(m.group(1))
        m = _INV.search(ln)
        if m:
            res.violated = m.group(1)
        elif "Error: Temporal properties were violated" in ln:
            res.violated = res.violated or "temporal"
        elif ln.startswith("Error: Temporal property") and "violated" in ln:
            res.violated = res.violated or ln.split()[3]
        elif "Error: Action property" in ln and "violated" in ln:
            res.violated = res.violated or ln.split()[3]
        elif ln.startswith("Error: Postcondition"):
            res.violated = res.violated or "postcondition"
        elif ln.startswith("Error: Deadlock reached"):
            res.violated = res.violated or "deadlock"
        if ln.startswith("Error: The behavior up to this point is") or ln.startswith("Error: The following behavior"):
            in_trace = True
        if in_trace:
            res.error_trace.append(ln)
        m = _COV.match(ln)
        if m:
            res.coverage[m.group(1)] = res.coverage.get(m.group(1), 0) + int(m.group(4))
        if ln.startswith("<<") or ln.startswith('"'):
            res.prints.append(ln)
    finished = any("Model checking completed. No error has been found." in ln for ln in lines) or \
        any("Finished in" in ln for ln in lines)
    if rc == 124:
        raise MachineryError("TLC timed out\n" + res.raw_tail)
    if res.violated is None and not any("No error has been found" in ln for ln in lines):
        # simulation mode does not print "No error"; accept a clean exit
        if rc != 0 or any(ln.startswith("Error:") for ln in lines):
            raise MachineryError(f"TLC failed (rc={rc})\n" + res.raw_tail)
    res.ok = res.violated is None and finished
    return res
