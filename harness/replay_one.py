"""./check <Cxx> --replay <file>: re-execute exactly one recorded violation."""
from __future__ import annotations

import json
import shutil
import traceback

from . import bridge, drive_deser, gen, record, tlc


def replay(prop: str, path: str) -> int:
    with open(path) as fh:
        blob = json.load(fh)
    case = blob["case"]
    print("what:", blob.get("what"))
    if "type_enc" in case and "classes" in case:
        return replay_deser_event(case)
    print(json.dumps(case, indent=1)[:4000])
    print("(no automatic re-execution for this kind of case)")
    return 1


def replay_deser_event(case: dict) -> int:
    from apischema import ValidationError, deserialize

    T = case["type_enc"]
    ctx = bridge.build_ctx(case["classes"], case["enums"], [T])
    print(bridge.module_source(case["classes"], case["enums"], [T])[len(bridge.HEADER):])
    opts = case["opts"]
    kwargs = {"additional_properties": opts["addl"], "fall_back_on_default": opts["fbd"]}
    if opts.get("coerce"):
        kwargs["coerce"] = True
    data = bridge.dec_data(case["data"])
    print("deserialize(", bridge.type_expr(T), ",", repr(data)[:500], ",", kwargs, ")")
    try:
        print("->", deserialize(ctx.type(T), data, **kwargs))
    except ValidationError as err:
        try:
            print("-> ValidationError", err.errors)
        except Exception:
            traceback.print_exc()
    except Exception:
        traceback.print_exc()
    out = record.run_deserialize(ctx, ctx.type(T), bridge.dec_data(case["data"]), kwargs)
    if drive_deser.has_py(case["data"]):
        out["v"] = {"k": "unencodable"}
    senv = gen.senv_for(T, case["classes"], case["enums"], [case["data"]])
    ctxs = [{"C": case["classes"], "En": case["enums"], "O": opts, "S": senv}]
    events = [{"id": 1, "cx": 1, "type": T, "cons": [], "data": case["data"], "out": out}]
    wd = tlc.scratch_dir("verifreplay_")
    try:
        res, mism, expects = drive_deser.validate(ctxs, events, wd, expect_dump=True)
    finally:
        shutil.rmtree(wd, ignore_errors=True)
        bridge.cleanup_gen_dir()
    print("actual  :", json.dumps(out)[:1500])
    for e in expects.values():
        print("expected:", e[:1500])
    if mism:
        print("verdict :", mism[1], "(reproduced)")
        return 1
    print("verdict : ok (not reproduced)")
    return 0
