"""Random generation of class tables, types, JSON data and typed values in the encodings of
spec/Values.tla.  Deterministic from a seed; used by the code -> spec drivers (events recorded
from the real code and validated by TLC) to reach beyond the exhaustive universes."""
from __future__ import annotations

import copy
import random
from typing import Any, Dict, List, Optional

from . import bridge

P = lambda p: {"k": "prim", "p": p}  # noqa: E731
NONE = P("none")
STRS = ["", "a", "ab", "abc", "b", "1", "2", "-1", "1.5", "true", "YES", "no", "x", "zz", " 7 ", "z1", "07"]
KEYS = ["a", "b", "c", "d", "ab", "zz", "a1", "z9", "x_y", "A", "bb", "kind"]
INTS = [0, 1, 2, 3, -1, 4, 5, 7, 10]
HALVES = [0, 1, 2, 3, 4, -1, -2, 5, 6, 9]


def d_null():
    return {"k": "null"}


def d_bool(b):
    return {"k": "bool", "b": b}


def d_int(n):
    return {"k": "int", "n": n}


def d_float(h):
    return {"k": "float", "h": h}


def d_str(s):
    return {"k": "str", "s": s}


def d_arr(a):
    return {"k": "arr", "a": a}


def d_obj(o):
    return {"k": "obj", "o": o}


def mk_field(name, tp, **kw):
    f = dict(name=name, alias=name, type=tp, dk="req", dv={"k": "null"}, flat=False, props="no",
             pat="", reqmd=False, skipd=False, skips=False, nau=False, fbd=False, kind="normal",
             cons=[], skip_default=False, skip_if="", inherited=False)
    f.update(kw)
    return f


class Gen:
    def __init__(self, rng: random.Random, *, objects=True, coerce=False, features=None):
        self.rng = rng
        self.classes: Dict[str, dict] = {}
        self.enums: Dict[str, list] = {}
        self.n = 0
        self.objects = objects
        self.features = features or {"flatten", "props", "reqmd", "skip", "nau", "fbd", "ro", "wo",
                                     "typeddict", "namedtuple", "depreq", "recursive", "fieldcons"}

    # ------------------------------------------------------------------ types
    def fresh(self, prefix):
        self.n += 1
        return f"{prefix}{self.n}"

    def gen_cons(self, kind: str) -> list:
        r = self.rng
        cons = []
        if kind == "num":
            if r.random() < 0.5:
                cons.append(["min", r.choice([0, 2, 3, -2])])
            if r.random() < 0.4:
                cons.append(["max", r.choice([4, 6, 7, 20])])
            if r.random() < 0.2:
                cons.append(["exc_min", r.choice([0, 2])])
            if r.random() < 0.2:
                cons.append(["exc_max", r.choice([6, 8])])
            if r.random() < 0.3:
                cons.append(["mult_of", r.choice([4, 6, 2])])   # halves: 2, 3, 1
        elif kind == "str":
            if r.random() < 0.5:
                cons.append(["min_len", r.choice([1, 2])])
            if r.random() < 0.4:
                cons.append(["max_len", r.choice([1, 2, 3])])
            if r.random() < 0.4:
                cons.append(["pattern", r.choice(list(bridge.PATTERNS))])
        elif kind == "arr":
            if r.random() < 0.5:
                cons.append(["min_items", r.choice([1, 2])])
            if r.random() < 0.5:
                cons.append(["max_items", r.choice([1, 2, 3])])
        elif kind == "obj":
            if r.random() < 0.5:
                cons.append(["min_props", r.choice([1, 2])])
            if r.random() < 0.5:
                cons.append(["max_props", r.choice([1, 2, 3])])
        if not cons:
            return self.gen_cons(kind)
        return cons

    def gen_enum(self) -> dict:
        r = self.rng
        name = self.fresh("E")
        style = r.choice(["int", "str", "mixed"])
        if style == "int":
            vals = [d_int(v) for v in r.sample([0, 1, 2, 3, 5], r.randint(1, 3))]
        elif style == "str":
            vals = [d_str(v) for v in r.sample(["a", "b", "ab", "1", "x"], r.randint(1, 3))]
        else:
            vals = [d_int(r.choice([1, 2])), d_str(r.choice(["a", "b"]))]
        self.enums[name] = [[f"M{i}", v] for i, v in enumerate(vals)]
        return {"k": "enum", "cls": name}

    def gen_leaf(self, hashable=False) -> dict:
        r = self.rng
        c = r.random()
        if c < 0.16:
            return P("int")
        if c < 0.28:
            return P("str")
        if c < 0.38:
            return P("float")
        if c < 0.46:
            return P("bool")
        if c < 0.50:
            return NONE
        if c < 0.56 and not hashable:
            return {"k": "any"}
        if c < 0.64:
            kind = r.choice(["int", "str", "mixed"])
            if kind == "int":
                vals = [d_int(v) for v in r.sample([0, 1, 2, 3], r.randint(1, 3))]
            elif kind == "str":
                vals = [d_str(v) for v in r.sample(["a", "b", "ab", "1"], r.randint(1, 3))]
            else:
                vals = [d_int(r.choice([2, 3])), d_str(r.choice(["a", "2"]))]
            return {"k": "lit", "vals": vals, "mem": []}
        if c < 0.70:
            return self.gen_enum()
        if c < 0.76:
            sup = r.choice([P("int"), P("str"), P("float")])
            return {"k": "newtype", "name": self.fresh("N"), "sup": sup}
        if c < 0.86:
            p = r.choice(["int", "float"])
            return {"k": "annot", "t": P(p), "cons": self.gen_cons("num")}
        if c < 0.94:
            return {"k": "annot", "t": P("str"), "cons": self.gen_cons("str")}
        return P("int")

    def gen_keytype(self) -> dict:
        r = self.rng
        c = r.random()
        if c < 0.6:
            return P("str")
        if c < 0.75:
            return {"k": "annot", "t": P("str"), "cons": self.gen_cons("str")}
        if c < 0.9:
            return {"k": "lit", "vals": [d_str(v) for v in r.sample(["a", "b", "ab"], 2)], "mem": []}
        return {"k": "newtype", "name": self.fresh("N"), "sup": P("str")}

    def gen_type(self, depth: int, hashable=False) -> dict:
        r = self.rng
        if depth <= 0 or r.random() < 0.25:
            return self.gen_leaf(hashable)
        c = r.random()
        if hashable:
            if c < 0.4:
                return {"k": "tuple", "es": [self.gen_type(depth - 1, True) for _ in range(r.randint(1, 3))]}
            if c < 0.6:
                return {"k": "coll", "c": "fset", "e": self.gen_type(depth - 1, True)}
            if c < 0.8:
                return {"k": "coll", "c": "vtuple", "e": self.gen_type(depth - 1, True)}
            alts = [self.gen_type(depth - 1, True) for _ in range(r.randint(2, 3))]
            return self.mk_union(alts)
        if c < 0.14:
            t = {"k": "coll", "c": "list", "e": self.gen_type(depth - 1)}
            if r.random() < 0.3:
                t = {"k": "annot", "t": t, "cons": self.gen_cons("arr")}
            return t
        if c < 0.20:
            return {"k": "coll", "c": r.choice(["set", "fset"]), "e": self.gen_type(depth - 1, True)}
        if c < 0.26:
            return {"k": "coll", "c": "vtuple", "e": self.gen_type(depth - 1)}
        if c < 0.36:
            return {"k": "tuple", "es": [self.gen_type(depth - 1) for _ in range(r.randint(1, 3))]}
        if c < 0.46:
            t = {"k": "map", "kt": self.gen_keytype(), "vt": self.gen_type(depth - 1)}
            if r.random() < 0.3:
                t = {"k": "annot", "t": t, "cons": self.gen_cons("obj")}
            return t
        if c < 0.58:
            return self.mk_union([self.gen_type(depth - 1), NONE])
        if c < 0.72:
            alts = [self.gen_type(depth - 1) for _ in range(r.randint(2, 3))]
            return self.mk_union(alts)
        if self.objects and c < 0.80:
            n = r.randint(2, 3)
            alts = [{"k": "obj", "cls": self.gen_class(depth - 1, plain=r.random() < 0.6, kind="dataclass")} for _ in range(n)]
            if r.random() < 0.5:
                keys, mode = [[a["cls"]] for a in alts], "default"
            else:
                pool = r.sample(["x", "y", "zz", "a", "q"], n + 1)
                keys, mode = [[k] for k in pool[:n]], "explicit"
                if r.random() < 0.4:
                    keys[0].append(pool[n])
            return {"k": "dunion", "alts": alts, "alias": r.choice(["kind", "type"]), "keys": keys, "mode": mode}
        if self.objects:
            return {"k": "obj", "cls": self.gen_class(depth - 1)}
        return self.gen_leaf()

    def mk_union(self, alts):
        # flatten nested unions the way typing does and drop duplicates
        flat = []
        for a in alts:
            for x in (a["alts"] if a["k"] == "union" else [a]):
                if x not in flat:
                    flat.append(x)
        if len(flat) == 1:
            return flat[0]
        return {"k": "union", "alts": flat}

    # ------------------------------------------------------------------ classes
    def gen_class(self, depth: int, *, plain=False, kind=None) -> str:
        r = self.rng
        name = self.fresh("K")
        feats = self.features
        if kind is None:
            kind = "dataclass"
            c = r.random()
            if "typeddict" in feats and c < 0.12:
                kind = "typeddict"
            elif "namedtuple" in feats and c < 0.22:
                kind = "namedtuple"
        spec = {"kind": kind, "fields": [], "depreq": [], "smethods": [], "postinc": "", "bases": []}
        self.classes[name] = spec          # registered first: recursive references allowed
        nf = r.randint(0 if plain else 1, 4)
        names = r.sample(["a", "b", "c", "d", "ab", "a1"], nf)
        used_ext = set()
        fields = []
        have_add = False
        for fname in names:
            tp = self.gen_type(depth)
            recursive = False
            if "recursive" in feats and kind == "dataclass" and r.random() < 0.08:
                tp = self.mk_union([{"k": "obj", "cls": name}, NONE])
                recursive = True
            f = mk_field(fname, tp)
            c = r.random()
            simple = kind != "dataclass" or plain
            if not simple and "flatten" in feats and c < 0.10 and depth >= 0:
                sub = self.gen_class(max(depth - 1, 0), plain=True, kind="dataclass")
                subspec = self.classes[sub]
                sub_ext = {x["alias"] for x in subspec["fields"]}
                if sub_ext & (used_ext | set(names)):
                    f = mk_field(fname, P("int"))
                else:
                    used_ext |= sub_ext
                    f = mk_field(fname, {"k": "obj", "cls": sub}, flat=True)
            elif not simple and "props" in feats and c < 0.16:
                f = mk_field(fname, {"k": "map", "kt": P("str"), "vt": self.gen_type(0)},
                             props="pat", pat=r.choice(["pz", "pnum"]))
            elif not simple and "props" in feats and c < 0.22 and not have_add:
                have_add = True
                f = mk_field(fname, {"k": "map", "kt": P("str"), "vt": self.gen_type(0)}, props="add")
            else:
                if kind == "dataclass" and r.random() < 0.3:
                    al = r.choice(["A", "bb", "x_y", "B2"])
                    if al not in used_ext and al not in names:
                        f["alias"] = al
                if not simple and "fieldcons" in feats and r.random() < 0.1 and f["type"]["k"] == "prim" \
                        and f["type"]["p"] in ("int", "str"):
                    f["cons"] = self.gen_cons("num" if f["type"]["p"] == "int" else "str")
            # defaults
            if recursive:
                if r.random() < 0.7:
                    f["dk"], f["dv"] = "val", {"k": "null"}
            elif r.random() < 0.45 or f["flat"] and r.random() < 0.3:
                dv = self.gen_value(f["type"], f["cons"])
                if dv is not None:
                    f["dk"] = "fac" if dv["k"] in ("list", "set", "dict", "inst") or r.random() < 0.2 else "val"
                    if kind != "dataclass":
                        f["dk"] = "val"
                    f["dv"] = dv
                    if kind == "typeddict":
                        f["dv"] = {"k": "undef"}
            if kind == "typeddict" and f["dk"] == "req" and r.random() < 0.3:
                f["dk"], f["dv"] = "val", {"k": "undef"}
            if f["dk"] != "req" and not simple:
                c = r.random()
                if "reqmd" in feats and c < 0.08 and IsNormal(f):
                    f["reqmd"] = True
                elif "fbd" in feats and c < 0.2:
                    f["fbd"] = True
                elif "skip" in feats and c < 0.26 and IsNormal(f):
                    f["skipd"] = True
                elif "ro" in feats and c < 0.32 and IsNormal(f):
                    f["kind"] = "ro"
            if kind == "dataclass" and not simple and "nau" in feats and IsNormal(f) and r.random() < 0.08:
                inner = self.gen_leaf()
                if inner != NONE and inner["k"] != "any":
                    f["type"] = self.mk_union([inner, NONE])
                    f["nau"] = True
                    f["dk"], f["dv"] = "val", r.choice([{"k": "undef"}, {"k": "null"}])
            if f["alias"] in used_ext:
                f["alias"] = f["name"]
            used_ext.add(f["alias"])
            fields.append(f)
        # dataclass: fields without default first (Python's own rule); ro / skipd keep position
        if kind in ("dataclass", "namedtuple"):
            fields = [f for f in fields if f["dk"] == "req"] + [f for f in fields if f["dk"] != "req"]
        if kind == "typeddict":
            fields = [f for f in fields if f["dk"] == "req"] + [f for f in fields if f["dk"] != "req"]
        spec["fields"] = fields
        if kind == "dataclass" and not plain and "depreq" in feats and r.random() < 0.15:
            opt = [f["name"] for f in fields if f["dk"] != "req" and IsNormal(f) and not f["skipd"]
                   and f["kind"] == "normal" and not f["reqmd"]]
            if len(opt) >= 2:
                a, b = r.sample(opt, 2)
                spec["depreq"] = [[a, [b]]]
        return name

    # ------------------------------------------------------------------ values (typed)
    def gen_value(self, T: dict, cons: list = (), depth: int = 3) -> Optional[dict]:
        """A typed value inhabiting T (None if none is found quickly)."""
        d = self.gen_valid_data(T, list(cons), depth)
        if d is None:
            return None
        v = self.image(T, d)
        return None if has_none(v) else v

    def image(self, T: dict, d: dict) -> Optional[dict]:
        """Typed image of valid datum d (independent, straightforward transcription of the data
        model table; only used to fabricate *default values*, never as an oracle)."""
        k = T["k"]
        if k == "prim":
            if T["p"] == "float" and d["k"] == "int":
                return d_float(2 * d["n"])
            return d
        if k == "any":
            return any_image(d)
        if k == "newtype":
            return self.image(T["sup"], d)
        if k == "annot":
            return self.image(T["t"], d)
        if k == "coll":
            xs = [self.image(T["e"], x) for x in d["a"]]
            if T["c"] == "list":
                return {"k": "list", "a": xs}
            if T["c"] == "vtuple":
                return {"k": "tuple", "a": xs}
            return {"k": T["c"], "e": bridge.canon_set(xs)}
        if k == "tuple":
            return {"k": "tuple", "a": [self.image(e, x) for e, x in zip(T["es"], d["a"])]}
        if k == "map":
            return {"k": "dict", "o": [[self.image(T["kt"], d_str(key)), self.image(T["vt"], v)] for key, v in d["o"]]}
        if k == "lit":
            return d
        if k == "enum":
            for m, v in self.enums[T["cls"]]:
                if v == d:
                    return {"k": "enum", "cls": T["cls"], "m": m}
            return None
        if k == "union":
            for a in T["alts"]:
                if self.quick_valid(a, d):
                    return self.image(a, d)
            return None
        if k == "obj":
            return self.obj_image(T["cls"], d)
        if k == "dunion":
            got = dict((key, v) for key, v in d["o"])
            tag = got.get(T["alias"], {}).get("s")
            for keys, alt in zip(T["keys"], T["alts"]):
                if tag in keys:
                    return self.obj_image(alt["cls"], d)
            return None
        return None

    def obj_image(self, cls, d):
        spec = self.classes[cls]
        got = dict((k, v) for k, v in d["o"])
        out = []
        for f in spec["fields"]:
            if f["kind"] == "wo":
                continue
            if f["flat"] or f["props"] != "no" or f["skipd"] or f["kind"] == "ro" or f["alias"] not in got:
                if f["dk"] == "req":
                    return None
                if spec["kind"] == "typeddict":
                    continue
                out.append([f["name"], copy.deepcopy(f["dv"])])
            else:
                out.append([f["name"], self.image(f["type"] if not f["nau"] else drop_none(f["type"]), got[f["alias"]])])
        if spec["kind"] == "typeddict":
            return {"k": "dict", "o": [[d_str(n), v] for n, v in out]}
        return {"k": "inst", "cls": cls, "f": out}

    def quick_valid(self, T, d) -> bool:
        k = T["k"]
        if k == "prim":
            return d["k"] in {"none": ["null"], "bool": ["bool"], "int": ["int"], "float": ["int", "float"],
                              "str": ["str"]}[T["p"]]
        if k == "any":
            return True
        if k in ("newtype",):
            return self.quick_valid(T["sup"], d)
        if k == "annot":
            return self.quick_valid(T["t"], d)
        if k in ("coll", "tuple"):
            return d["k"] == "arr"
        if k in ("map", "obj", "dunion"):
            return d["k"] == "obj"
        if k == "lit":
            return d in T["vals"]
        if k == "enum":
            return any(v == d for _, v in self.enums[T["cls"]])
        if k == "union":
            return any(self.quick_valid(a, d) for a in T["alts"])
        return False

    # ------------------------------------------------------------------ data
    def atom(self) -> dict:
        r = self.rng
        c = r.random()
        if c < 0.12:
            return d_null()
        if c < 0.24:
            return d_bool(r.random() < 0.5)
        if c < 0.44:
            return d_int(r.choice(INTS))
        if c < 0.58:
            return d_float(r.choice(HALVES))
        if c < 0.80:
            return d_str(r.choice(STRS))
        if c < 0.90:
            return d_arr([self.atom() for _ in range(r.randint(0, 2))] if r.random() < 0.5 else [])
        return d_obj([[k, self.atom()] for k in r.sample(KEYS, r.randint(0, 2))] if r.random() < 0.5 else [])

    def num_for(self, cons, integer: bool) -> dict:
        r = self.rng
        lo, hi = -4, 12
        c = dict((k, v) for k, v in cons)
        cands = []
        for h in range(2 * lo, 2 * hi + 1):
            if integer and h % 2:
                continue
            if "min" in c and h < c["min"] or "max" in c and h > c["max"]:
                continue
            if "exc_min" in c and h <= c["exc_min"] or "exc_max" in c and h >= c["exc_max"]:
                continue
            if any(k == "mult_of" and h % v for k, v in cons):
                continue
            cands.append(h)
        if not cands:
            return None
        h = r.choice(cands)
        return d_int(h // 2) if integer or (h % 2 == 0 and r.random() < 0.5) else d_float(h)

    def str_for(self, cons) -> Optional[dict]:
        import re

        r = self.rng
        c = dict((k, v) for k, v in cons)
        cands = []
        for s in STRS + KEYS:
            if "min_len" in c and len(s) < c["min_len"] or "max_len" in c and len(s) > c["max_len"]:
                continue
            if any(k == "pattern" and not re.match(bridge.PATTERNS[v], s) for k, v in cons):
                continue
            cands.append(s)
        return d_str(r.choice(cands)) if cands else None

    def gen_valid_data(self, T: dict, cons: list, depth: int) -> Optional[dict]:
        r = self.rng
        k = T["k"]
        if k == "prim":
            p = T["p"]
            if p == "none":
                return d_null()
            if p == "bool":
                return d_bool(r.random() < 0.5)
            if p == "int":
                return self.num_for(cons, True)
            if p == "float":
                return self.num_for(cons, False)
            return self.str_for(cons)
        if k == "any":
            return self.atom() if not cons else d_null()
        if k == "newtype":
            return self.gen_valid_data(T["sup"], cons, depth)
        if k == "annot":
            return self.gen_valid_data(T["t"], list(T["cons"]) + list(cons), depth)
        if k == "coll":
            c = dict((a, b) for a, b in cons)
            lo, hi = c.get("min_items", 0), c.get("max_items", 3)
            if lo > hi:
                return None
            n = r.randint(lo, min(hi, lo + 2)) if depth > 0 else lo
            xs = [self.gen_valid_data(T["e"], [], depth - 1) for _ in range(n)]
            return None if any(x is None for x in xs) else d_arr(xs)
        if k == "tuple":
            c = dict((a, b) for a, b in cons)
            if c.get("min_items", 0) > len(T["es"]) or c.get("max_items", 99) < len(T["es"]):
                return None
            xs = [self.gen_valid_data(e, [], depth - 1) for e in T["es"]]
            return None if any(x is None for x in xs) else d_arr(xs)
        if k == "map":
            c = dict((a, b) for a, b in cons)
            lo, hi = c.get("min_props", 0), c.get("max_props", 3)
            if lo > hi:
                return None
            n = r.randint(lo, min(hi, lo + 2)) if depth > 0 else lo
            items, seen = [], set()
            for _ in range(n * 3):
                if len(items) >= n:
                    break
                kd = self.gen_valid_data(T["kt"], [], depth - 1)
                vd = self.gen_valid_data(T["vt"], [], depth - 1)
                if kd is None or vd is None or kd["s"] in seen:
                    continue
                seen.add(kd["s"])
                items.append([kd["s"], vd])
            return d_obj(items) if len(items) >= lo else None
        if k == "lit":
            return copy.deepcopy(r.choice(T["vals"]))
        if k == "enum":
            return copy.deepcopy(r.choice(self.enums[T["cls"]])[1])
        if k == "union":
            if depth <= 0 and NONE in T["alts"]:
                return d_null()
            for a in r.sample(T["alts"], len(T["alts"])):
                d = self.gen_valid_data(a, cons, depth - 1 if a["k"] == "obj" else depth)
                if d is not None:
                    return d
            return None
        if k == "obj":
            return self.gen_valid_obj(T["cls"], cons, depth)
        if k == "dunion":
            i = r.randrange(len(T["alts"]))
            d = self.gen_valid_obj(T["alts"][i]["cls"], cons, depth)
            if d is None:
                return None
            o = [p for p in d["o"] if p[0] != T["alias"]]
            o.insert(r.randint(0, len(o)), [T["alias"], d_str(r.choice(T["keys"][i]))])
            return d_obj(o)
        return None

    def gen_valid_obj(self, cls: str, cons: list, depth: int) -> Optional[dict]:
        r = self.rng
        spec = self.classes[cls]
        items = []
        for f in spec["fields"]:
            if f["skipd"] or f["kind"] == "ro":
                continue
            ftype = drop_none(f["type"]) if f["nau"] else f["type"]
            if f["flat"]:
                sub = self.gen_valid_obj(unwrap(ftype)["cls"], [], depth - 1) if depth > -2 else None
                if sub is None:
                    return None
                items.extend(sub["o"])
            elif f["props"] == "pat":
                if r.random() < 0.5:
                    vd = self.gen_valid_data(ftype["vt"], [], depth - 1)
                    if vd is not None:
                        items.append([{"pz": "z9", "pnum": "07"}[f["pat"]], vd])
            elif f["props"] == "add":
                if r.random() < 0.5:
                    vd = self.gen_valid_data(ftype["vt"], [], depth - 1)
                    if vd is not None:
                        items.append(["zz", vd])
            else:
                need = f["dk"] == "req" or f["reqmd"]
                if need or (r.random() < 0.6 and depth > 0):
                    vd = self.gen_valid_data(ftype, f["cons"], depth - 1 if depth > 0 else 0) if depth > -3 else None
                    if vd is None:
                        if need:
                            return None
                        continue
                    items.append([f["alias"], vd])
        # honour dependent_required
        present = {k for k, _ in items}
        by_name = {f["name"]: f for f in spec["fields"]}
        for a, bs in spec["depreq"]:
            if by_name[a]["alias"] in present:
                for b in bs:
                    fb = by_name[b]
                    if fb["alias"] not in present:
                        vd = self.gen_valid_data(fb["type"], fb["cons"], 1)
                        if vd is None:
                            return None
                        items.append([fb["alias"], vd])
                        present.add(fb["alias"])
        r.shuffle(items)
        seen, out = set(), []
        for k, v in items:
            if k not in seen:
                seen.add(k)
                out.append([k, v])
        c = dict((a, b) for a, b in cons)
        if len(out) < c.get("min_props", 0) or len(out) > c.get("max_props", 99):
            return None
        return d_obj(out)

    def mutate(self, T: dict, d: dict, p: float = 0.25) -> dict:
        """Plant violations: wrong kinds, boundary shifts, missing / extra / renamed keys,
        length changes -- at every position independently with probability p."""
        r = self.rng
        if r.random() < p * 0.5:
            return self.atom()
        k = d["k"]
        if k == "arr":
            a = [self.mutate(T, x, p) for x in d["a"]]
            c = r.random()
            if c < p * 0.4 and a:
                a.pop(r.randrange(len(a)))
            elif c < p * 0.8:
                a.insert(r.randint(0, len(a)), self.atom())
            elif c < p and a:
                a.append(copy.deepcopy(r.choice(a)))
            return d_arr(a)
        if k == "obj":
            o = [[key, self.mutate(T, v, p)] for key, v in d["o"]]
            c = r.random()
            if c < p * 0.4 and o:
                o.pop(r.randrange(len(o)))
            elif c < p * 0.8:
                key = r.choice(KEYS)
                if key not in [x[0] for x in o]:
                    o.append([key, self.atom()])
            elif c < p and o:
                i = r.randrange(len(o))
                key = r.choice(KEYS)
                if key not in [x[0] for x in o]:
                    o[i][0] = key
            return d_obj(o)
        if k == "int" and r.random() < p:
            return d_int(d["n"] + r.choice([-1, 1, 2, -3]))
        if k == "float" and r.random() < p:
            return d_float(d["h"] + r.choice([-1, 1, 2]))
        if k == "str" and r.random() < p:
            return d_str(r.choice(STRS))
        if k == "bool" and r.random() < p * 0.3:
            return d_int(1)
        return d

    def gen_data(self, T: dict, depth: int = 3) -> dict:
        r = self.rng
        c = r.random()
        if c < 0.1:
            return self.atom()
        d = self.gen_valid_data(T, [], depth)
        if d is None:
            return self.atom()
        if c < 0.45:
            return d
        return self.mutate(T, d, r.choice([0.1, 0.25, 0.5]))


def has_none(x) -> bool:
    if x is None:
        return True
    if isinstance(x, dict):
        return any(has_none(v) for v in x.values())
    if isinstance(x, list):
        return any(has_none(v) for v in x)
    return False


def IsNormal(f):
    return not f["flat"] and f["props"] == "no"


def unwrap(T):
    while True:
        if T["k"] == "annot":
            T = T["t"]
        elif T["k"] == "newtype":
            T = T["sup"]
        elif T["k"] == "union" and len(T["alts"]) == 2 and T["alts"][1] == NONE:
            T = T["alts"][0]
        else:
            return T


def drop_none(T):
    if T["k"] == "annot":
        return {"k": "annot", "t": drop_none(T["t"]), "cons": T["cons"]}
    if T["k"] == "union" and NONE in T["alts"]:
        rest = [a for a in T["alts"] if a != NONE]
        return rest[0] if len(rest) == 1 else {"k": "union", "alts": rest}
    return T


def any_image(d):
    if d["k"] == "arr":
        return {"k": "list", "a": [any_image(x) for x in d["a"]]}
    if d["k"] == "obj":
        return {"k": "dict", "o": [[d_str(k), any_image(v)] for k, v in d["o"]]}
    return d


def strings_in(x, acc: set):
    """Every string occurring in a datum / type / class table (keys, values, aliases)."""
    if isinstance(x, dict):
        if x.get("k") == "str":
            acc.add(x["s"])
        if x.get("k") == "int":
            acc.add(str(x["n"]))
        if "o" in x and isinstance(x["o"], list):
            for key, v in x["o"]:
                if isinstance(key, str):
                    acc.add(key)
                else:
                    strings_in(key, acc)
                strings_in(v, acc)
            return
        for key, v in x.items():
            if key in ("alias", "name") and isinstance(v, str):
                acc.add(v)
            strings_in(v, acc)
    elif isinstance(x, list):
        for y in x:
            if isinstance(y, str):
                acc.add(y)
            strings_in(y, acc)


def senv_for(*things) -> dict:
    acc: set = set()
    for t in things:
        strings_in(t, acc)
    return {s: bridge.str_attrs(s) for s in acc}
