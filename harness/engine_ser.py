"""Engine shared by the properties decided on the serialization model (C04, C05, C08):
TLC (spec/mc/MC_Ser.tla) enumerates (type, options, typed value) cases, checks JsonOnly /
AnyEqTyped / RoundTrip on the two reference semantics, and emits every case with the JSON image
the specification predicts; each case is replayed through the real serialize (and, per
property, the real round trip / the option variants)."""
from __future__ import annotations

import json
from typing import Any, Dict, List, Optional, Set

from . import bridge, common, replay_deser, tlc

CLAUSES = {
    "C04": {"image", "untyped", "nonjson", "escape"},
    "C05": {"roundtrip", "roundtrip-json", "roundtrip-escape"},
    "C07": {"schema-rejects", "schema-model", "schema-error"},
    "C08": {"opt-method", "opt-check_type", "opt-no_copy", "opt-pass_through", "opt-input-modified", "opt-shares"},
}

MC_CFG = """CONSTANT Tier = "%s"
SPECIFICATION Spec
INVARIANT JsonOnly
INVARIANT AnyEqTyped
INVARIANT RoundTrip
INVARIANT SerValidates
"""


def has_serr(d: Any) -> bool:
    if isinstance(d, dict):
        if d.get("k") == "serr":
            return True
        return any(has_serr(x) for x in d.values())
    if isinstance(d, list):
        return any(has_serr(x) for x in d)
    return False


def ser_norm(d: Any) -> Any:
    """Objects as mappings, bags (and arrays compared to bags) as multisets."""
    k = d.get("k")
    if k == "arr":
        return ["arr", [ser_norm(x) for x in d["a"]]]
    if k == "bag":
        return ["bag", sorted(json.dumps(ser_norm(x), sort_keys=True) for x in d["e"])]
    if k == "obj":
        return ["obj", sorted(([key, ser_norm(v)] for key, v in d["o"]), key=lambda p: json.dumps(p, sort_keys=True))]
    return [k, {x: d[x] for x in d if x != "k"}]


def ser_equal(expected: Any, actual: Any) -> bool:
    """expected may contain bags where actual (real JSON) has arrays."""
    ek, ak = expected.get("k"), actual.get("k")
    if ek == "bag":
        if ak != "arr":
            return False
        exp = sorted(json.dumps(ser_norm(x), sort_keys=True) for x in expected["e"])
        act = sorted(json.dumps(ser_norm(x), sort_keys=True) for x in actual["a"])
        return exp == act        # elements of sets are hashable, hence bag-free
    if ek != ak:
        return False
    if ek == "arr":
        return len(expected["a"]) == len(actual["a"]) and all(ser_equal(a, b) for a, b in zip(expected["a"], actual["a"]))
    if ek == "obj":
        eo, ao = dict(map(tuple, expected["o"])), dict(map(tuple, actual["o"]))
        if len(eo) != len(expected["o"]) or len(ao) != len(actual["o"]):
            return False
        return eo.keys() == ao.keys() and all(ser_equal(eo[key], ao[key]) for key in eo)
    return expected == actual


def ser_kwargs(u: replay_deser.Universe, opts: dict) -> dict:
    kw: Dict[str, Any] = {"exclude_none": opts["exn"], "exclude_defaults": opts["exd"],
                          "additional_properties": opts["addl"]}
    al = u.aliaser(opts.get("aliname", "id"))
    if al is not None:
        kw["aliaser"] = al
    return kw


def run_serialize(fn, *args, **kw) -> dict:
    from apischema import ValidationError

    try:
        res = fn(*args, **kw)
    except Exception as exc:
        return {"kind": "exc", "exc": type(exc).__name__ + ": " + str(exc)[:150]}
    try:
        return {"kind": "ok", "d": bridge.enc_data(res), "raw": res}
    except bridge.Unencodable as exc:
        return {"kind": "nonjson", "why": str(exc), "raw": res}


def parse_emitted(prints: List[str]):
    return replay_deser.parse_emitted(prints)


def case_summary(c: dict, out: Optional[dict] = None) -> dict:
    s = {"type": bridge.type_expr(c["type"]), "type_enc": c["type"], "opts": {k: v for k, v in c["opts"].items() if k != "ali"},
         "value": c["value"], "expected": c["expect"]}
    if out is not None:
        s["actual"] = {k: v for k, v in out.items() if k != "raw"}
    return s


def run(prop: str, rep: common.Report, *, tiers_quick=("d0", "d1"), tiers_thorough=("d0", "d1", "u", "d2"), per_case=None,
        per_case_nonjson=False):
    """per_case(u, c, tp, val, kw, out, report_violation) adds the property's own comparisons."""
    import apischema.cache
    from apischema import serialize

    mine = CLAUSES[prop]
    thorough = common.tier() == "thorough"
    tiers = list(tiers_thorough if thorough else tiers_quick)
    states = trans = replayed = unprescribed = other = 0
    nontrivial: Set[str] = set()
    for t in tiers:
        res = tlc.run_tlc("MC_Ser", MC_CFG % t, workers=16, env={"EMIT": "1"}, timeout_s=3000)
        if res.violated:
            rep.violation(f"TLC: invariant {res.violated} of the serialization semantics violated on tier {t}",
                          {"tlc": res.error_trace[:60]})
            continue
        states += res.distinct
        trans += res.states
        header, cases = parse_emitted(res.prints)
        u = replay_deser.Universe(header, [c["type"] for c in cases])
        keyed = sorted(cases, key=lambda c: json.dumps(c["type"], sort_keys=True))
        last = None
        for c in keyed:
            tkey = json.dumps(c["type"], sort_keys=True)
            if tkey != last:
                apischema.cache.reset()
                replay_deser.clear_typing_caches()
                u._types.clear()
                last = tkey
            if has_serr(c["expect"]):
                unprescribed += 1
                continue
            tp = u.type(c["type"])
            kw = ser_kwargs(u, c["opts"])
            try:
                val = u.ctx.dec_value(c["value"])
            except Exception as exc:
                raise RuntimeError(f"cannot build value {c['value']}: {exc!r}")
            out = run_serialize(serialize, tp, val, **kw)
            replayed += 1
            nontrivial.add(json.dumps([c["type"], ser_norm(c["expect"])], sort_keys=True)[:400])

            def violate(clause: str, what: str, extra: Optional[dict] = None, _c=c, _out=out, finding: Optional[str] = None):
                nonlocal other
                if clause in mine:
                    s = case_summary(_c, _out)
                    s.update(extra or {})
                    rep.violation(f"[{clause}] {bridge.type_expr(_c['type'])} <- {json.dumps(_c['value'])[:160]}: {what}", s,
                                  finding_key=finding)
                else:
                    other += 1

            if out["kind"] == "exc":
                violate("escape", "serialize raised " + out["exc"])
            elif out["kind"] == "nonjson":
                violate("nonjson", "result is not JSON data: " + out["why"])
            elif not ser_equal(c["expect"], out["d"]):
                violate("image", f"expected {json.dumps(c['expect'])[:300]} got {json.dumps(out['d'])[:300]}")
            elif c["value"].get("k") == "inst" and c["type"]["k"] == "obj":
                un = run_serialize(serialize, val, **kw)
                if un["kind"] != "ok" or not ser_equal(c["any"], un["d"]):
                    violate("untyped", f"serialize(v) without type differs: {json.dumps({k: v for k, v in un.items() if k != 'raw'})[:300]}")
            if per_case is not None and (out["kind"] == "ok" or (per_case_nonjson and out["kind"] == "nonjson")):
                per_case(u, c, tp, val, kw, out, violate)
            if replayed % 3001 == 1:
                rep.sample({"replayed": case_summary(c, out)})
        bridge.cleanup_gen_dir()
    rep.set("states", states)
    rep.set("transitions", trans)
    rep.set("traces_validated_against_impl", replayed)
    rep.set("cases_replayed_in_code", replayed)
    rep.set("cases_with_unprescribed_image", unprescribed)
    rep.set("evaluations", replayed)
    rep.set("distinct_nontrivial", len(nontrivial))
    rep.set("rule", "a case is a (type, options, typed value) triple; distinct = distinct (type, predicted image) pairs")
    rep.set("mismatches_owned_by_other_properties", other)
    rep.set("universe_tiers", tiers)
