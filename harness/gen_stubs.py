"""Writes sample instances of the modules that the checks generate at run time (graph / pool
constants), so that setup can syntax-check the specifications that extend them."""
import os
import sys

sys.path.insert(0, os.path.dirname(os.path.dirname(os.path.abspath(__file__))))
from harness import cachepool as CP  # noqa: E402
from harness import recgraphs  # noqa: E402
from harness.props import c09  # noqa: E402


def main(out: str):
    with open(os.path.join(out, "MC_RecGen.tla"), "w") as fh:
        fh.write(recgraphs.mc_module("MC_RecGen", recgraphs.GRAPHS["G1"], recgraphs.PROGRAMS["G1"][0]))
    deps = {o: {"st.addl"} for o in CP.OBS}
    with open(os.path.join(out, "MC_CacheGen.tla"), "w") as fh:
        fh.write(c09.gen_module(deps, conflate_keys=False))


if __name__ == "__main__":
    main(sys.argv[1])
