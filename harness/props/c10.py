"""C10 -- validators run exactly when their inputs are valid; all errors merged (spec/Validators.tla)."""
from __future__ import annotations

import json
import os
import random
import shutil
from typing import Dict, List

from harness import common, tlc, valcase

CFG = """CONSTANTS MaxF = %d
 MaxV = %d
 Rich = %s
 StSet = %s
 ExtOn = %s
 Deviations = {%s}
SPECIFICATION %s
%s
INVARIANT RunIff
INVARIANT AtMostOnce
INVARIANT MergedOnce
INVARIANT ConstructRule
INVARIANT EmitDone
%s
"""

TRACE_CFG = """CONSTANTS MaxF = 4
 MaxV = 4
 Rich = TRUE
 StSet = {"absent", "valid", "invalid"}
 ExtOn = TRUE
 Deviations = {}
INIT TraceInit
NEXT TraceNext
CHECK_DEADLOCK FALSE
"""


ALL_ST = '{"absent", "valid", "invalid"}'


def cfg(f, v, rich=False, dev="", spec="Spec", view="", prop="", st=ALL_ST, ext=False):
    return CFG % (f, v, "TRUE" if rich else "FALSE", st, "TRUE" if ext else "FALSE", dev, spec, view, prop)


def parse_cases(prints: List[str]) -> List[dict]:
    seen, out = set(), []
    for p in prints:
        if p.startswith('"') and p not in seen:
            seen.add(p)
            out.append(json.loads(json.loads(p)))
    return out


def replay_cases(rep: common.Report, cases: List[dict], label: str, distinct: set) -> int:
    n = 0
    for c in cases:
        if not valcase.well_formed(c["case"]):
            continue
        out = valcase.run_case(c["case"])
        vd = valcase.verdict(c, out)
        n += 1
        distinct.add(valcase.shape_key(c["case"]))
        if vd != "ok":
            rep.violation(f"{label}: [{vd}] expected ran={c['ran']} errs={c['errs']} got ran={out['ran']} "
                          f"errs={out['errs']} kind={out['kind']}",
                          {"case": c["case"], "expected": {k: c[k] for k in ("ran", "errs", "constructed")},
                           "actual": out, "source": valcase.class_source(c["case"])})
        elif n % 9973 == 1:
            rep.sample({"case": c["case"], "expected_ran": c["ran"], "expected_errs": c["errs"], "actual": out})
    return n


def random_case(rng: random.Random) -> dict:
    nf = rng.randint(1, 4)
    names = ["a", "b", "c", "d"][:nf]
    fields = []
    all_req = True
    for n in names:
        req = all_req and rng.random() < 0.3
        all_req = all_req and req
        fields.append({"name": n, "alias": n.upper() if rng.random() < 0.4 else n, "req": req,
                       "st": rng.choice(["absent", "valid", "valid", "valid", "valid", "invalid"])})
    vals = []
    for i in range(rng.randint(1, 4)):
        deps = [n for n in names if rng.random() < 0.5] or [rng.choice(names)]
        fld = rng.choice(deps) if rng.random() < 0.35 else ""
        r = rng.random()
        disc = [] if r < 0.4 else ([fld] if fld and r < 0.6 else rng.sample(names, rng.randint(1, len(names))))
        vals.append({"name": f"v{i + 1}", "deps": sorted(deps), "fld": fld, "disc": sorted(disc),
                     "style": rng.choice(["raise", "yield", "yieldpath"]), "out": rng.choice(["pass", "fail", "fail"])})
    case = {"fields": fields, "vals": vals, "variant": rng.choice(["attr", "method", "property"]),
            "split": rng.randint(0, len(vals) - 1) if rng.random() < 0.4 else 0, "wo": "",
            "depreq": len(fields) >= 2 and not fields[0]["req"] and not fields[1]["req"] and rng.random() < 0.4}
    case["generic"] = not case["split"] and rng.random() < 0.3
    # validators not bound to the class, attached by argument / Annotated / enclosing field metadata
    case["ext"] = [{"name": f"x{i + 1}", "deps": [], "fld": "", "disc": [], "style": rng.choice(["raise", "yield"]),
                    "out": rng.choice(["pass", "fail"])} for i in range(rng.choice([0, 0, 1, 2]))]
    case["extmode"] = rng.choice(["arg", "annotated", "field", "recref"]) if case["ext"] else "arg"
    # an object-level constraint (@schema(max_props=k)): a structural error at the root of the object
    case["maxp"] = rng.choice([1, 2]) if len(fields) >= 2 and not case["ext"] and not case["depreq"] and rng.random() < 0.3 else 0
    # an InitVar dependency (declared parameter) -- kept out of field validators / yielded paths
    cand = [f["name"] for f in fields if not any(v["fld"] == f["name"] for v in vals)]
    if cand and rng.random() < 0.3:
        w = cand[-1]
        if all(not (v["style"] == "yieldpath" and valcase.first_dep(case, v) == w) for v in vals):
            case["wo"] = w
    return case


def main() -> int:
    rep = common.Report("C10", "model_checking")
    thorough = common.tier() == "thorough"
    rep.assumptions = ["validators' pass/fail outcomes are inputs of the case (generated validators consult a table)",
                       "dependency discovery (AST) is bound through generated source shapes: attribute read, via method, "
                       "via property, declared InitVar parameter"]
    states = trans = 0
    distinct: set = set()
    # 1. exhaustive: model refines the reference rule; every case emitted and replayed in the code
    r = tlc.run_tlc("MC_Validators", cfg(2, 2), workers=16, env={"EMIT": "1"}, timeout_s=1800)
    states += r.distinct
    trans += r.states
    if r.violated:
        rep.violation(f"TLC: invariant {r.violated} violated by the validator model", {"trace": r.error_trace[:60]})
    replayed = replay_cases(rep, parse_cases(r.prints), "exhaustive (2 fields, 2 validators)", distinct)
    # chains of three validators (discard followed by later failures) on one field
    r = tlc.run_tlc("MC_Validators", cfg(1, 3), workers=16, env={"EMIT": "1"}, timeout_s=1800)
    states += r.distinct
    trans += r.states
    if r.violated:
        rep.violation(f"TLC: invariant {r.violated} violated (1 field, 3 validators)", {"trace": r.error_trace[:60]})
    replayed += replay_cases(rep, parse_cases(r.prints), "exhaustive (1 field, 3 validators)", distinct)
    # validators not bound to the class (argument / Annotated / metadata of an enclosing field) after the class's own
    r = tlc.run_tlc("MC_Validators", cfg(2, 1, ext=True), workers=16, env={"EMIT": "1"}, timeout_s=1800)
    states += r.distinct
    trans += r.states
    if r.violated:
        rep.violation(f"TLC: invariant {r.violated} violated (2 fields, 1 validator, unbound validators)", {"trace": r.error_trace[:60]})
    replayed += replay_cases(rep, parse_cases(r.prints), "exhaustive (2 fields, 1 validator, <= 2 unbound validators)", distinct)
    if thorough:
        r = tlc.run_tlc("MC_Validators", cfg(3, 2), workers=16, env={"EMIT": "0"}, timeout_s=3000)
        states += r.distinct
        trans += r.states
        if r.violated:
            rep.violation(f"TLC: invariant {r.violated} violated (3 fields, 2 validators)", {"trace": r.error_trace[:60]})
    # 2. termination (call log hidden by the VIEW so that the graph is finite)
    r = tlc.run_tlc("MC_Validators", cfg(2, 2, spec="FairSpec", view="VIEW ViewNoHistory", prop="PROPERTY Termination"),
                    workers=8, env={"EMIT": "0"}, timeout_s=1800)
    states += r.distinct
    trans += r.states
    if r.violated:
        rep.violation(f"TLC: {r.violated} violated (termination of validate())", {"trace": r.error_trace[:60]})
    # 3. negative model checks: the two repaired defects must contradict the properties as formalised
    neg = {}
    r = tlc.run_tlc("MC_Validators", cfg(2, 2, dev='"selfrerun"', spec="FairSpec", view="VIEW ViewNoHistory",
                                         prop="PROPERTY Termination"), workers=8, env={"EMIT": "0"}, timeout_s=1800)
    neg["selfrerun"] = r.violated
    r = tlc.run_tlc("MC_Validators", cfg(2, 2, dev='"aliasgate"'), workers=8, env={"EMIT": "0"}, timeout_s=1800)
    neg["aliasgate"] = r.violated
    r = tlc.run_tlc("MC_Validators", cfg(2, 2, dev='"depreqvalid"'), workers=8, env={"EMIT": "0"}, timeout_s=1800)
    neg["depreqvalid"] = r.violated
    r = tlc.run_tlc("MC_Validators", cfg(1, 1, dev='"extdropped"', ext=True), workers=8, env={"EMIT": "0"}, timeout_s=1800)
    neg["extdropped"] = r.violated
    r = tlc.run_tlc("MC_Validators", cfg(2, 1, dev='"rooterrdropped"'), workers=8, env={"EMIT": "0"}, timeout_s=1800)
    neg["rooterrdropped"] = r.violated
    rep.set("negative_checks", neg)
    if neg["selfrerun"] != "Termination" or neg["aliasgate"] != "RunIff" or neg["depreqvalid"] != "RunIff" \
            or neg["extdropped"] != "RunIff" or neg["rooterrdropped"] not in ("MergedOnce", "ConstructRule"):
        raise tlc.MachineryError(f"negative model checks no longer violate the invariants: {neg}")
    # 4. sampled rich cases (up to 4 fields / 4 validators, every option) by TLC simulation, replayed
    nsim = 6000 if thorough else 1200
    nsimcases = 0
    # two samples: every field valid (the validators' interplay: chains of failures and discards),
    # and mixed field statuses (gating)
    for label, st in (("all fields valid", '{"valid"}'), ("mixed statuses", ALL_ST)):
        r = tlc.run_tlc("MC_Validators", cfg(4, 4, rich=True, st=st, ext=True), workers=4, env={"EMIT": "1"},
                        simulate=f"num={nsim}", depth=24, seed=common.seed() + 1, timeout_s=1800)
        if r.violated:
            rep.violation(f"TLC (simulation): invariant {r.violated} violated", {"trace": r.error_trace[:60]})
        sim_cases = parse_cases(r.prints)
        nsimcases += len(sim_cases)
        replayed += replay_cases(rep, sim_cases, f"sampled (<= 4 fields, <= 4 validators, {label})", distinct)
    rep.set("simulated_cases", nsimcases)
    # 5. code -> spec: python-generated classes (inheritance, method / property / InitVar dependencies)
    rng = random.Random(common.seed())
    n_exec = 6000 if thorough else 1500
    execs = []
    for i in range(n_exec):
        case = random_case(rng)
        out = valcase.run_case(case)
        distinct.add(valcase.shape_key(case))
        execs.append({"id": i + 1, "case": {"fields": case["fields"], "vals": case["vals"], "depreq": bool(case.get("depreq")),
                               "ext": case["ext"], "extmode": case["extmode"], "maxp": case["maxp"]},
                      "kind": out["kind"], "ran": out["ran"], "errs": out["errs"], "constructed": out["constructed"],
                      "_full": case})
    wd = tlc.scratch_dir("verifval_")
    try:
        path = os.path.join(wd, "valtrace.json")
        with open(path, "w") as fh:
            json.dump([{k: v for k, v in e.items() if k != "_full"} for e in execs], fh)
        r = tlc.run_tlc("Trace_Validators", TRACE_CFG, workers=1, env={"TRACE_FILE": path}, timeout_s=1800)
        states += r.distinct
        trans += r.states
        if not any("ALLDONE" in p for p in r.prints):
            raise tlc.MachineryError("trace validation did not examine every execution\n" + r.raw_tail)
        for p in r.prints:
            if p.startswith('<<"MISMATCH"'):
                parts = [x.strip(' "<>') for x in p.split(",")]
                e = execs[int(parts[1]) - 1]
                rep.violation(f"recorded execution rejected by the model [{parts[2]}]: ran={e['ran']} errs={e['errs']}",
                              {"case": e["_full"], "actual": {k: e[k] for k in ("kind", "ran", "errs", "constructed")},
                               "source": valcase.class_source(e["_full"])})
        rep.sample({"recorded_execution": {k: v for k, v in execs[0].items() if k != "_full"}})
    finally:
        shutil.rmtree(wd, ignore_errors=True)
    rep.set("states", states)
    rep.set("transitions", trans)
    rep.set("traces_validated_against_impl", len(execs))
    rep.set("cases_replayed_in_code", replayed)
    rep.set("evaluations", replayed + len(execs))
    rep.set("distinct_nontrivial", len(distinct))
    rep.set("rule", "distinct class shapes (fields x validators with dependency / field / discard / style declarations)")
    rep.set("exhaustive", True)
    return rep.finish()


def replay_file(path: str) -> int:
    with open(path) as fh:
        blob = json.load(fh)
    case = blob["case"]["case"]
    print(valcase.class_source(case))
    out = valcase.run_case(case)
    print("actual:", out)
    print("recorded:", blob["what"])
    return 1


replay = replay_file
