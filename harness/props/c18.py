"""C18 -- schema dialect conversion preserves the set of valid instances (spec/Dialects.tla)."""
from __future__ import annotations

import copy
import json
from typing import Any, Dict, List, Optional

from harness import bridge, common, replay_deser, tlc
from harness.engine_deser import MC_CFG

COMMON = {"type", "enum", "minimum", "maximum", "exclusiveMinimum", "exclusiveMaximum", "multipleOf", "minLength", "maxLength",
          "pattern", "items", "minItems", "maxItems", "uniqueItems", "properties", "required", "additionalProperties",
          "patternProperties", "minProperties", "maxProperties", "anyOf", "oneOf", "allOf", "$ref", "discriminator",
          "default", "title", "description", "examples", "format", "deprecated", "readOnly", "writeOnly", "$schema"}
VOCAB = {
    "2019-09": COMMON | {"const", "additionalItems", "dependentRequired", "unevaluatedProperties", "$defs"},
    "draft-07": COMMON | {"const", "additionalItems", "dependencies", "definitions"},
    "oas30": (COMMON | {"nullable", "example"}) - {"patternProperties", "examples", "$schema"},
}
KNOWN_LEAKS = {("draft-07", "unevaluatedProperties"): "F-dialect-vocabulary", ("oas30", "patternProperties"): "F-dialect-vocabulary",
               ("oas30", "items[]"): "F-dialect-vocabulary", ("oas30", "null-type"): "F-dialect-vocabulary"}
PREFIX = {"2019-09": "#/$defs/", "draft-07": "#/definitions/", "oas30": "#/components/schemas/"}
SUB_SCHEMA = {"items", "additionalProperties", "additionalItems", "unevaluatedProperties"}
SUB_LIST = {"anyOf", "oneOf", "allOf", "prefixItems"}
SUB_MAP = {"properties", "patternProperties", "$defs", "definitions"}


def walk(schema: Any, version: str, bad: set, refs: list):
    """Vocabulary and reference prefix at every nesting level."""
    if not isinstance(schema, dict):
        return
    for kw, val in schema.items():
        if kw not in VOCAB[version]:
            bad.add(kw)
        if kw == "$ref":
            refs.append(val)
        if kw == "type" and version == "oas30" and (val == "null" or (isinstance(val, list))):
            bad.add("null-type" if val == "null" else "type-list")
        if kw == "items" and isinstance(val, list):
            if version == "oas30":
                bad.add("items[]")
            for s in val:
                walk(s, version, bad, refs)
        elif kw in SUB_SCHEMA:
            walk(val, version, bad, refs)
        elif kw in SUB_LIST:
            for s in val:
                walk(s, version, bad, refs)
        elif kw in SUB_MAP:
            for s in val.values():
                walk(s, version, bad, refs)


def oas30_to_2020(s: Any) -> Any:
    """OpenAPI 3.0 has no executable oracle here: its documented mapping back to JSON Schema."""
    if isinstance(s, list):
        return [oas30_to_2020(x) for x in s]
    if not isinstance(s, dict):
        return s
    if "$ref" in s:
        return {"$ref": s["$ref"]}       # OpenAPI 3.0: the siblings of $ref are ignored
    out = {}
    for kw, val in s.items():
        if kw == "nullable":
            continue
        if kw == "items" and isinstance(val, list):
            out["prefixItems"] = [oas30_to_2020(x) for x in val]
        elif kw in SUB_SCHEMA or kw in SUB_LIST:
            out[kw] = oas30_to_2020(val)
        elif kw in SUB_MAP:
            out[kw] = {k: oas30_to_2020(v) for k, v in val.items()}
        elif kw == "example":
            out["examples"] = [val]
        else:
            out[kw] = val
    if s.get("nullable"):
        if "enum" in out and None not in out["enum"]:
            out["enum"] = list(out["enum"]) + [None]
        return {"anyOf": [out, {"type": "null"}]}
    return out


def main() -> int:
    import apischema.cache
    import jsonschema
    from apischema.json_schema import JsonSchemaVersion, definitions_schema, deserialization_schema

    rep = common.Report("C18", "model_checking")
    thorough = common.tier() == "thorough"
    rep.assumptions = ["jsonschema's Draft7 / Draft2019-09 / Draft2020-12 validators are the oracles; OpenAPI 3.0 is validated through "
                       "its documented mapping back to JSON Schema (harness/props/c18.py:oas30_to_2020)",
                       "the draft 2020-12 schema of the same type is the reference set of valid instances"]
    versions = {"2019-09": (JsonSchemaVersion.DRAFT_2019_09, jsonschema.Draft201909Validator),
                "draft-07": (JsonSchemaVersion.DRAFT_7, jsonschema.Draft7Validator),
                "oas30": (JsonSchemaVersion.OPEN_API_3_0, jsonschema.Draft202012Validator)}
    states = trans = n = 0
    distinct = set()
    tiers = ["d0", "d1", "d2"] if thorough else ["d0", "d1"]
    for t in tiers:
        cfg = (MC_CFG % t).replace("VocabularyGaps = {}", 'VocabularyGaps = {"unevaluatedProperties", "patternProperties"}') \
            + "INVARIANT DialectEquivalent\nINVARIANT VocabularyOnly\n"
        res = tlc.run_tlc("MC_Deser", cfg, workers=16, env={"EMIT": "1"}, timeout_s=3000)
        states += res.distinct
        trans += res.states
        if res.violated:
            rep.violation(f"TLC: {res.violated} violated on tier {t} (dialect conversion model)", {"tlc": res.error_trace[:60], "prints": res.prints[:3]})
            continue
        header, cases = replay_deser.parse_emitted(res.prints)
        cases = [c for c in cases if not c["opts"]["fbd"] and not c["opts"]["coerce"]]
        u = replay_deser.Universe(header, [c["type"] for c in cases])
        keyed = sorted(cases, key=lambda c: json.dumps([c["type"], c["opts"]["addl"], c["opts"]["aliname"]], sort_keys=True))
        last = None
        vals: Dict[str, Any] = {}
        for c in keyed:
            skey = json.dumps([c["type"], c["opts"]["addl"], c["opts"]["aliname"]], sort_keys=True)
            if skey != last:
                last = skey
                apischema.cache.reset()
                replay_deser.clear_typing_caches()
                u._types.clear()
                tp = u.type(c["type"])
                addl = c["opts"]["addl"]
                akw = {k: v for k, v in replay_deser.kwargs_of(u, c["opts"]).items() if k == "aliaser"}
                vals = {}
                try:
                    # OpenAPI 3.1 first, then 3.0: both have no $schema of their own, neither may take the other's conversion
                    sch31 = deserialization_schema(tp, additional_properties=addl, version=JsonSchemaVersion.OPEN_API_3_1, **akw)
                    base = deserialization_schema(tp, additional_properties=addl, **akw)
                    # OpenAPI 3.1 IS draft 2020-12 (no $schema, definitions under components)
                    base_refs = deserialization_schema(tp, additional_properties=addl, all_refs=True, **akw)   # OpenAPI versions default to all_refs
                    want31 = json.loads(json.dumps({k: v for k, v in base_refs.items() if k not in ("$schema", "$defs")})
                                        .replace("#/$defs/", "#/components/schemas/"))
                    if sch31 != want31:
                        rep.violation(f"OpenAPI 3.1 schema of {bridge.type_expr(c['type'])} is not the draft 2020-12 one: {json.dumps(sch31)[:200]}",
                                      {"type": bridge.type_expr(c["type"]), "schema_3_1": sch31, "expected": want31})
                    vals["2020-12"] = jsonschema.Draft202012Validator(base)
                    for vname, (ver, vcls) in versions.items():
                        sch = deserialization_schema(tp, additional_properties=addl, version=ver, **akw)
                        bad: set = set()
                        refs: list = []
                        walk(sch, vname, bad, refs)
                        for kw in sorted(bad):
                            rep.violation(f"{vname} schema of {bridge.type_expr(c['type'])} uses '{kw}', outside its vocabulary",
                                          {"type": bridge.type_expr(c["type"]), "version": vname, "schema": sch},
                                          finding_key=KNOWN_LEAKS.get((vname, kw)))
                        for r in refs:
                            if not r.startswith(PREFIX[vname]):
                                rep.violation(f"{vname} schema of {bridge.type_expr(c['type'])} has reference '{r}' without the prefix {PREFIX[vname]}",
                                              {"type": bridge.type_expr(c["type"]), "version": vname, "schema": sch})
                        # the definitions of a type listed on BOTH sides (merged by compare_schemas) are converted too
                        if c["type"]["k"] == "obj":
                            try:
                                both = definitions_schema(deserialization=[tp], serialization=[tp], version=ver, all_refs=True,
                                                          additional_properties=addl, **akw)
                            except TypeError:
                                both = {}          # the two sides legitimately differ (asymmetric classes): refused
                            for dname, dsch in both.items():
                                bad2: set = set()
                                walk(dsch, vname, bad2, [])
                                for kw in sorted(bad2):
                                    rep.violation(f"{vname}: definitions_schema(deserialization=[T], serialization=[T]) of {bridge.type_expr(c['type'])}: "
                                                  f"definition {dname} uses '{kw}', outside its vocabulary",
                                                  {"type": bridge.type_expr(c["type"]), "version": vname, "definition": dsch},
                                                  finding_key=KNOWN_LEAKS.get((vname, kw)))
                        if vname == "oas30":
                            defs = definitions_schema(deserialization=[tp], version=ver, additional_properties=addl, **akw)
                            doc = {"components": {"schemas": {k: oas30_to_2020(v) for k, v in defs.items()}}, "root": oas30_to_2020(sch)}
                            doc["$ref"] = "#/root"
                            vals[vname] = vcls(doc)
                        else:
                            vals[vname] = vcls(sch)
                    # a ROOT that is a reference (named type under all_refs=True, recursive class) carrying a constraint of its
                    # own (the schema= argument): the older dialects ignore the siblings of $ref, the conversion must isolate it
                    if c["type"]["k"] == "obj":
                        from apischema import schema as mk_schema

                        rkw = dict(additional_properties=addl, all_refs=True, schema=mk_schema(max_props=1), **akw)
                        vals["root:2020-12"] = jsonschema.Draft202012Validator(deserialization_schema(tp, **rkw))
                        for vname in ("2019-09", "draft-07"):
                            ver, vcls = versions[vname]
                            vals["root:" + vname] = vcls(deserialization_schema(tp, version=ver, **rkw))
                except Exception as exc:
                    rep.violation(f"schema generation raised {type(exc).__name__}: {exc} for {bridge.type_expr(c['type'])}",
                                  {"type": bridge.type_expr(c["type"])})
                    vals = {}
            if not vals:
                continue
            data = bridge.dec_data(c["data"])
            n += 1
            base_ok = vals["2020-12"].is_valid(data)
            distinct.add(json.dumps([c["type"], base_ok]))
            for vname in versions:
                if vname not in vals:
                    continue
                ok = vals[vname].is_valid(data)
                summary = {"type": bridge.type_expr(c["type"]), "version": vname, "data": c["data"], "accepted_2020_12": base_ok,
                           "accepted_converted": ok, "model_accepted_converted": c["vaccept"][vname]}
                if ok != c["vaccept"][vname]:
                    rep.violation(f"{vname} schema of {bridge.type_expr(c['type'])} {'accepts' if ok else 'rejects'} "
                                  f"{json.dumps(data)[:120]} but the model of the conversion says the opposite", summary)
                elif (vname == "oas30" and c["dropped"]) or (vname == "draft-07" and "flattened" in c["gaps"]):
                    if base_ok and not ok:
                        rep.violation(f"oas30 schema of {bridge.type_expr(c['type'])} rejects {json.dumps(data)[:120]} accepted by the 2020-12 schema", summary)
                elif ok != base_ok:
                    rep.violation(f"{vname} schema of {bridge.type_expr(c['type'])} {'accepts' if ok else 'rejects'} {json.dumps(data)[:120]}; "
                                  f"the draft 2020-12 schema {'accepts' if base_ok else 'rejects'} it", summary)
            if "root:2020-12" in vals:
                root_ok = vals["root:2020-12"].is_valid(data)
                for vname in ("2019-09", "draft-07"):
                    ok = vals["root:" + vname].is_valid(data)
                    if ok != root_ok:
                        rep.violation(f"{vname} schema of {bridge.type_expr(c['type'])} (all_refs=True, schema(max_props=1) at the root) "
                                      f"{'accepts' if ok else 'rejects'} {json.dumps(data)[:120]}; the draft 2020-12 schema of the same call "
                                      f"{'accepts' if root_ok else 'rejects'} it", {"type": bridge.type_expr(c["type"]), "version": vname, "data": c["data"]})
            if n % 4001 == 1:
                rep.sample({"type": bridge.type_expr(c["type"]), "data": c["data"], "accepted_2020_12": base_ok, "model": c["vaccept"]})
        bridge.cleanup_gen_dir()
    # negative model check: the leaks are real -- without the exclusions VocabularyOnly is violated
    cfg = (MC_CFG % "obj") + "INVARIANT VocabularyOnly\n"
    r = tlc.run_tlc("MC_Deser", cfg, workers=8, env={"EMIT": "0"}, timeout_s=3000)
    rep.set("negative_check_vocabulary_leaks", r.violated or "NOT VIOLATED")
    if r.violated != "VocabularyOnly":
        raise tlc.MachineryError("negative model check: the known vocabulary leaks no longer violate VocabularyOnly")
    rep.set("states", states)
    rep.set("transitions", trans)
    rep.set("traces_validated_against_impl", n)
    rep.set("evaluations", n * 3)
    rep.set("distinct_nontrivial", len(distinct))
    rep.set("rule", "distinct (type, accepted by the 2020-12 schema) classes, each datum validated under 3 converted dialects")
    return rep.finish()


def replay(path: str) -> int:
    print(json.dumps(json.load(open(path)), indent=1)[:5000])
    return 1
