from harness import common, engine_deser


def main() -> int:
    rep = common.Report("C14", "model_checking")
    rep.assumptions = ["reference semantics = spec/DataModel.tla (first accepting alternative; documented coercion table)",
                       "string -> number parsing and boolean words are Python's own, carried as string attributes"]
    engine_deser.run("C14", rep, coerce=True, tiers_quick=("d0", "d1", "u"), tiers_thorough=("d0", "d1", "u", "d2"), identity_coercer_pass=True)
    return rep.finish()


def replay(path: str) -> int:
    from harness import replay_one

    return replay_one.replay("C14", path)
