"""C14 -- coercion only widens acceptance, per the documented table (spec/DataModel.tla: CoerceTo)."""
import json
import sys
import types

from harness import common, engine_deser, sublaw

VALIDATED_SRC = '''
from dataclasses import dataclass, field
from typing import Annotated, List, NewType
from apischema import ValidationError, validator
from apischema.metadata import validators

Even = NewType("Even", int)


@validator
def check_even(n: Even):
    if n % 2:
        raise ValidationError("odd")


def short(xs):
    if len(xs) > 2:
        raise ValidationError("too long")


def positive(n):
    if n < 0:
        raise ValidationError("negative")


ShortList = Annotated[List[int], validators(short)]


@dataclass
class Holder:
    n: int = field(default=0, metadata=validators(positive))
    xs: List[int] = field(default_factory=list, metadata=validators(short))
'''


def validated_types_law(rep: common.Report) -> int:
    """Beyond the universe (its encoding has no type-level validators): coercion converts the datum, it does not
    waive what is checked afterwards.  For right-typed data the strict and the coercing call agree; a coercible
    datum is accepted iff its converted form is accepted in strict mode."""
    from apischema import ValidationError, deserialize

    import linecache

    mod = types.ModuleType("verifvalidated")
    mod.__file__ = "<verifvalidated>"
    sys.modules["verifvalidated"] = mod
    # validators read their own source (dependency discovery): serve it from linecache
    linecache.cache[mod.__file__] = (len(VALIDATED_SRC), None, VALIDATED_SRC.splitlines(True), mod.__file__)
    exec(compile(VALIDATED_SRC, mod.__file__, "exec"), mod.__dict__)

    def outcome(tp, d, **kw):
        try:
            return ("ok", repr(deserialize(tp, d, **kw)))
        except ValidationError:
            return ("rejected", None)
        except Exception as exc:
            return ("raised", type(exc).__name__)

    ident = lambda cls, data: data  # noqa: E731
    n = 0
    # (type, right-typed data, [(coercible datum, its converted form)])
    table = [(mod.Even, [2, 3, 0, -1], [("4", 4), ("3", 3)]),
             (mod.ShortList, [[1], [1, 2, 3], []], []),
             (mod.Holder, [{"n": 1}, {"n": -1}, {"xs": [1, 2, 3]}, {"xs": [1]}, {}], [({"n": "-2"}, {"n": -2}), ({"n": "5"}, {"n": 5})])]
    for tp, right, coercible in table:
        for d in right:
            n += 1
            strict = outcome(tp, d)
            for label, kw in (("coerce=True", {"coerce": True}), ("coerce=<identity coercer>", {"coerce": ident})):
                got = outcome(tp, d, **kw)
                if got != strict:
                    rep.violation(f"validated types: deserialize({getattr(tp, '__name__', tp)}, {json.dumps(d)}, {label}) = {got} but strict "
                                  f"mode gives {strict}: coercion changed the outcome of a right-typed datum", {"data": d})
        for d, conv in coercible:
            n += 1
            want = outcome(tp, conv)
            got = outcome(tp, d, coerce=True)
            if got != want:
                rep.violation(f"validated types: deserialize({getattr(tp, '__name__', tp)}, {json.dumps(d)}, coerce=True) = {got} but its "
                              f"converted form {json.dumps(conv)} gives {want} in strict mode", {"data": d})
    # numbers outside the range of the model's integers: what strict mode accepts, coercion accepts (the image may
    # come from an earlier alternative of a union), and coercion never lets another exception than ValidationError out
    from typing import List, Optional, Union

    for tp in (float, int, Optional[float], Union[float, int], Union[int, float], List[float]):
        for d in (10**400, -(10**400), [10**400], 2**70, float("inf"), "1e999"):
            n += 1
            strict = outcome(tp, d)
            got = outcome(tp, d, coerce=True)
            if got[0] == "raised" or (strict[0] == "ok" and got[0] != "ok"):
                rep.violation(f"large numbers: deserialize({tp}, {str(d)[:12]}..., coerce=True) = {got}, strict mode gives {strict}",
                              {"type": str(tp), "data": str(d)[:40]})
    return n


def main() -> int:
    rep = common.Report("C14", "model_checking")
    rep.assumptions = ["reference semantics = spec/DataModel.tla (first accepting alternative; documented coercion table)",
                       "string -> number parsing and boolean words are Python's own, carried as string attributes",
                       "type-level validators (NewType / Annotated / field metadata on primitives and collections) are outside the "
                       "universe's encoding: the law strict = coerced on right-typed data is checked on the real code directly",
                       "classes derived from a primitive (class Port(int)) are outside the universe's encoding: the law 'behaves as its primitive base, the value being an instance of the class' is checked on the real code on both sides (harness/sublaw.py)"]
    engine_deser.run("C14", rep, coerce=True, tiers_quick=("d0", "d1", "u"), tiers_thorough=("d0", "d1", "u", "d2"), identity_coercer_pass=True)
    rep.set("validated_types_cases", validated_types_law(rep))
    rep.set("subprimitive_law_calls", sublaw.run(rep, "C14", [{"coerce": True}, {"coerce": lambda cls, data: data}]))
    return rep.finish()


def replay(path: str) -> int:
    from harness import replay_one

    return replay_one.replay("C14", path)
