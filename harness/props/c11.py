"""C11 -- a field has one external name across every view (spec/Names.tla)."""
from __future__ import annotations

import json
import re
import sys
import types
from typing import Any, Dict, List, Optional, Tuple

from harness import common, tlc

CFG = """CONSTANT Tier = "%s"
CONSTANT Deviations = %s
SPECIFICATION Spec
INVARIANT OneNameAll
INVARIANT DynIgnoresOverride
INVARIANT ClassAliaserRespectsOverride
"""

PINNED_DEVIATIONS = ["gqlname", "depreqraw"]        # repaired by fix: commits -- negative model checks
SEEDED_SHAPES = ["discardraw", "flatname", "arglookupname"]          # shapes of seeded changes -- negative model checks

GQL_NAME = re.compile(r"^[_A-Za-z][_0-9A-Za-z]*$")


def aliasers():
    from apischema.utils import to_camel_case

    return {"id": lambda s: s, "upper": str.upper, "prefix": lambda s: "p_" + s, "camel": to_camel_case,
            "custom": lambda s: s + "_z"}


def ev(term: dict) -> str:
    s = term["base"]
    al = aliasers()
    for a in term["apps"]:
        s = al[a](s)
    return s


def field_src(f: dict, tp: str, default: Optional[str]) -> str:
    md = None
    if f["alias"] and f["ovr"]:
        md = f'alias({f["alias"]!r})'
    elif f["alias"]:
        md = f'alias({f["alias"]!r}, override=False)'
    elif not f["ovr"]:
        md = "alias(override=False)"
    args = []
    if default is not None:
        args.append(f"default={default}")
    if md:
        args.append(f"metadata={md}")
    return f'    {f["name"]}: {tp} = field({", ".join(args)})'


def class_src(cfg: dict, o1: dict, o2: dict) -> str:
    f1, f2, g, link = cfg["f1"], cfg["f2"], cfg["g"], cfg["link"]
    deco = {"none": "", "upper": "@alias(str.upper)\n", "prefix": "@alias(PREFIX)\n"}
    src = ["from dataclasses import dataclass, field", "from typing import Generic, TypeVar, Union, Optional", "T = TypeVar('T')",
           "from apischema import alias, validator, ValidationError, dependent_required, Undefined, UndefinedType",
           "from apischema.metadata import flatten", "from apischema.objects import get_alias",
           "PREFIX = lambda s: 'p_' + s", "",
           ("@dataclass\nclass InnerBase:" if cfg["struct"] == "inherit" else
            deco[cfg["ical"]] + "@dataclass\nclass Inner" + ("(Generic[T]):" if cfg["struct"] == "generic" else ":")),
           field_src(f1, "int", None), field_src(f2, "int", None),
           field_src(o1, "Union[int, UndefinedType]", "Undefined"), field_src(o2, "Union[int, UndefinedType]", "Undefined"),
           f"    deps = dependent_required({{{o1['name']}: [{o2['name']}]}})",
           f"    @validator({f1['name']})", "    def v1(self):", f"        if self.{f1['name']} == 13:",
           "            raise ValidationError(['v1'])",
           "    @validator", "    def v2(self):", f"        if self.{f2['name']} == 13:",
           f"            yield get_alias(self).{f2['name']}, 'v2'",
           f"    @validator({f2['name']})", "    def v3(self):", f"        if self.{f2['name']} == 14:",
           f"            yield get_alias(self).{f1['name']}, 'v3'", ""]
    if cfg["struct"] == "inherit":
        src += [deco[cfg["ical"]] + "@dataclass", "class Inner(InnerBase):", "    pass", ""]
    if cfg["struct"] not in ("plain", "inherit", "generic"):
        lf = field_src(link, "Inner", None)
        if cfg["struct"] == "flat":
            lf = f'    {link["name"]}: Inner = field(metadata=flatten)'
        src += [deco[cfg["ocal"]] + "@dataclass", "class Outer:", lf, field_src(g, "int", None), ""]
    return "\n".join(src)


_modules: Dict[str, Any] = {}


def build(cfg: dict, o1: dict, o2: dict):
    key = json.dumps([cfg["struct"], cfg["ocal"], cfg["ical"], cfg["f1"], cfg["f2"], cfg["g"], cfg["link"]], sort_keys=True)
    if key not in _modules:
        if len(_modules) > 64:
            for name in list(_modules):
                sys.modules.pop(_modules.pop(name).__name__, None)
        name = f"verifnames{abs(hash(key))}"
        import linecache

        mod = types.ModuleType(name)
        mod.__file__ = f"<{name}>"
        sys.modules[name] = mod
        src = class_src(cfg, o1, o2)
        mod.__source__ = src
        # validators read their own source (dependency discovery): serve it from linecache
        linecache.cache[mod.__file__] = (len(src), None, src.splitlines(True), mod.__file__)
        exec(compile(src, mod.__file__, "exec"), mod.__dict__)
        _modules[key] = mod
    return _modules[key]


def locs(fn) -> Any:
    from apischema import ValidationError

    try:
        fn()
    except ValidationError as err:
        return sorted((list(map(str, e["loc"])), e["err"]) for e in err.errors)
    return "accepted"


def resolve(schema: dict, root: dict) -> dict:
    if "$ref" in schema:
        return resolve(root["$defs"][schema["$ref"].rsplit("/", 1)[1]], root)
    return schema


def collect(schema: dict, root: dict, acc: dict):
    """properties / required / dependentRequired of an object schema, through $ref and allOf."""
    schema = resolve(schema, root)
    for k in ("properties", "dependentRequired"):
        for n, v in schema.get(k, {}).items():
            acc[k][n] = v
    acc["required"] += schema.get("required", [])
    for sub in schema.get("allOf", []):
        collect(sub, root, acc)
    return acc


def observe(rep: common.Report, case: dict) -> int:
    import apischema
    from apischema import deserialize, serialize
    from apischema.json_schema import deserialization_schema, serialization_schema

    cfg, o1, o2 = case["cfg"], case["o1"], case["o2"]
    E = {r: ev(t) for r, t in case["expect"].items()}
    mod = build(cfg, o1, o2)
    struct = "plain" if cfg["struct"] in ("inherit", "generic") else cfg["struct"]
    Root = mod.Inner[int] if cfg["struct"] == "generic" else mod.Inner if struct == "plain" else mod.Outer
    al = aliasers()
    kw = {} if cfg["call"] == "default" else {"aliaser": al[cfg["call"]]}
    apischema.settings.aliaser = al[cfg["glob"]]
    info = {"cfg": cfg, "expected": E, "source": mod.__source__, "kwargs": cfg["call"], "settings.aliaser": cfg["glob"]}
    n = 0

    def bad(view: str, got: Any, want: Any):
        rep.violation(f"view {view}: {got!r} but the external names are {want!r} "
                      f"[{struct}, class aliasers {cfg['ical']}/{cfg['ocal']}, call aliaser {cfg['call']}, settings.aliaser {cfg['glob']}]",
                      dict(info, view=view, got=got, want=want))

    def path(role: str) -> List[str]:
        if role in ("g", "link") or struct != "nested":
            return [E[role]]
        return [E["link"], E[role]]

    def inner(vals: Dict[str, Any]) -> dict:
        return {E[r]: v for r, v in vals.items()}

    def root(vals: Dict[str, Any], gval: Any = 5, with_g: bool = True) -> dict:
        if struct == "plain":
            return inner(vals)
        d = {E["link"]: inner(vals)} if struct == "nested" else dict(inner(vals))
        if with_g:
            d[E["g"]] = gval
        return d

    def get_inner(obj):
        return obj if struct == "plain" else getattr(obj, cfg["link"]["name"])

    full = {"f1": 1, "f2": 2, "o1": 3, "o2": 4}
    # --- deser_key / flat_key
    n += 1
    try:
        obj = deserialize(Root, root(full), **kw)
        i = get_inner(obj)
        got = [getattr(i, cfg["f1"]["name"]), getattr(i, cfg["f2"]["name"]), getattr(i, o1["name"]), getattr(i, o2["name"])]
        if got != [1, 2, 3, 4] or (struct != "plain" and getattr(obj, cfg["g"]["name"]) != 5):
            bad("deser_key", got, [1, 2, 3, 4])
    except Exception as exc:
        bad("deser_key", f"{type(exc).__name__}: {getattr(exc, 'errors', exc)}", sorted(root(full)))
        obj = None
    # --- loc_missing
    n += 1
    want = sorted((path(r), "missing property") for r in (["f1", "f2"] + ([] if struct == "plain" else ["g"])))
    got = locs(lambda: deserialize(Root, root({}, with_g=False), **kw))
    if got != want:
        bad("loc_missing", got, want)
    # --- loc_type
    n += 1
    want = sorted((path(r), "expected type integer, found string") for r in (["f1", "f2", "o1", "o2"] + ([] if struct == "plain" else ["g"])))
    got = locs(lambda: deserialize(Root, root({r: "s" for r in full}, gval="s"), **kw))
    if got != want:
        bad("loc_type", got, want)
    # --- loc_validator / loc_yield / loc_yield_after_discard
    for view, vals, want in (
        ("loc_validator", {"f1": 13, "f2": 2}, [(path("f1"), "v1")]),
        ("loc_yield", {"f1": 1, "f2": 13}, [(path("f2")[:-1] + [E["f2"]], "v2")]),
        ("loc_yield", {"f1": 1, "f2": 14}, [(path("f2") + [E["f1"]], "v3")]),
        ("loc_yield_after_discard", {"f1": 13, "f2": 13}, sorted([(path("f1"), "v1"), (path("f2"), "v2")])),
    ):
        n += 1
        got = locs(lambda: deserialize(Root, root(vals), **kw))
        if got != want:
            bad(view, got, want)
    # --- loc_depreq
    n += 1
    got = locs(lambda: deserialize(Root, root({"f1": 1, "f2": 2, "o1": 3}), **kw))
    want = [(path("o2"), f"missing property (required by [{E['o1']!r}])")]
    if got != want:
        bad("loc_depreq", got, want)
    # --- raw names are not accepted when they differ from the external ones
    n += 1
    raw = {"f1": cfg["f1"]["name"], "f2": cfg["f2"]["name"]}
    if raw["f1"] != E["f1"] and raw["f1"] not in E.values():
        d = root({"f2": 2})
        tgt = d if struct != "nested" else d[E["link"]]
        tgt[raw["f1"]] = 1
        got = locs(lambda: deserialize(Root, d, **kw))
        want = sorted([(path("f1"), "missing property"), (path("f1")[:-1] + [raw["f1"]], "unexpected property")])
        if got != want:
            bad("deser_key (raw python name refused)", got, want)
    # --- ser_key
    if obj is not None:
        n += 1
        got = serialize(Root, obj, **kw)
        if got != root(full):
            bad("ser_key", got, root(full))
        if list(got) != list(root(full)) and struct != "flat":
            bad("ser_key (order)", list(got), list(root(full)))
    # --- schemas
    for view, fn in (("d", deserialization_schema), ("s", serialization_schema)):
        n += 1
        try:
            schema = fn(Root, **kw)
        except Exception as exc:
            bad("props_" + view, f"{type(exc).__name__}: {exc}", None)
            continue
        top = collect(schema, schema, {"properties": {}, "required": [], "dependentRequired": {}})
        if struct == "nested":
            if sorted(top["properties"]) != sorted([E["link"], E["g"]]) or sorted(top["required"]) != sorted([E["link"], E["g"]]):
                bad("props_" + view + " (outer)", [sorted(top["properties"]), sorted(top["required"])], sorted([E["link"], E["g"]]))
                continue
            inn = collect(top["properties"][E["link"]], schema, {"properties": {}, "required": [], "dependentRequired": {}})
            own: List[str] = []
        else:
            inn = top
            own = [] if struct == "plain" else [E["g"]]
        if sorted(inn["properties"]) != sorted([E[r] for r in full] + own):
            bad("props_" + view, sorted(inn["properties"]), sorted([E[r] for r in full] + own))
        if sorted(inn["required"]) != sorted([E["f1"], E["f2"]] + own):
            bad("required_" + view, sorted(inn["required"]), sorted([E["f1"], E["f2"]] + own))
        if inn["dependentRequired"] != {E["o1"]: [E["o2"]]}:
            bad("depreq_" + view, inn["dependentRequired"], {E["o1"]: [E["o2"]]})
    # --- GraphQL
    names = [E[r] for r in E if r != "link" or struct == "nested"]
    # (a specialised generic class has no default GraphQL type name: no GraphQL view of the "generic" structure)
    if all(GQL_NAME.match(x) for x in names) and obj is not None and cfg["struct"] != "generic":
        n += graphql_views(rep, bad, mod, Root, cfg, E, struct, kw, obj, full, root,
                           {k: ev(t) for k, t in case["params"].items()})
    else:
        rep.add("graphql_skipped_invalid_names")
    return n


def graphql_views(rep, bad, mod, Root, cfg, E, struct, kw, obj, full, root, P) -> int:
    import graphql
    from apischema import alias
    from apischema.graphql import Query, graphql_schema

    al = aliasers()
    dyn = al[cfg["call"]] if cfg["call"] != "default" else al[cfg["glob"]]
    seen = {}

    def get(arg_val, plain_arg=0):
        seen["arg"], seen["plain"] = arg_val, plain_arg
        return obj

    get.__annotations__ = {"arg_val": Root, "plain_arg": int, "return": Root}

    gkw = {"aliaser": None} if cfg["call"] == "default" else {"aliaser": al[cfg["call"]]}
    try:
        schema = graphql_schema(query=[Query(get, parameters_metadata={"arg_val": alias("arg_al")})], **gkw)
    except Exception as exc:
        bad("gql_out", f"graphql_schema raised {type(exc).__name__}: {exc}", None)
        return 1
    n = 0
    q = schema.query_type.fields
    if list(q) != [dyn("get")]:
        bad("gql_out (operation name)", list(q), [dyn("get")])
        return 1
    op = q[dyn("get")]
    if list(op.args) != [P["p1"], P["p2"]]:
        bad("gql_arg_published", list(op.args), [P["p1"], P["p2"]])

    def fields_of(t):
        while hasattr(t, "of_type"):
            t = t.of_type
        return t.fields

    for view, t in (("gql_out", op.type), ("gql_in", op.args.get(P["p1"]) and op.args[P["p1"]].type)):
        n += 1
        if t is None:
            continue
        top = fields_of(t)
        if struct == "nested":
            if sorted(top) != sorted([E["link"], E["g"]]):
                bad(view + " (outer)", sorted(top), sorted([E["link"], E["g"]]))
                continue
            inn, own = fields_of(top[E["link"]].type), []
        else:
            inn, own = top, ([] if struct == "plain" else [E["g"]])
        if sorted(inn) != sorted([E[r] for r in full] + own):
            bad(view, sorted(inn), sorted([E[r] for r in full] + own))
    # execution: the data keys of a query selecting every field, the argument given by external names
    n += 1

    def lit(d) -> str:
        return "{" + ", ".join(f"{k}: {lit(v) if isinstance(v, dict) else json.dumps(v)}" for k, v in d.items()) + "}"

    def sel(d) -> str:
        return "{" + " ".join(f"{k} {sel(v) if isinstance(v, dict) else ''}" for k, v in d.items()) + "}"

    data = root(full)
    query = f"{{ {dyn('get')}({P['p1']}: {lit(data)}, {P['p2']}: 7) {sel(data)} }}"
    res = graphql.graphql_sync(schema, query)
    if res.errors or res.data != {dyn("get"): data}:
        bad("gql_data", {"errors": [str(e) for e in res.errors or []], "data": res.data, "query": query}, {dyn("get"): data})
    else:
        # an argument rejected by apischema's own validation (validator v1 on f1 == 13): the error is located
        # at the PUBLISHED argument name followed by the external names of the path
        bad_data = root(dict(full, f1=13))
        res2 = graphql.graphql_sync(schema, f"{{ {dyn('get')}({P['p1']}: {lit(bad_data)}) {sel(data)} }}")
        n += 1
        want_loc = [P["p1"]] + ([E["link"]] if struct == "nested" else []) + [E["f1"]]
        msg = str(res2.errors[0].message) if res2.errors else ""
        try:
            import ast

            got_locs = [e["loc"] for e in ast.literal_eval(msg)]
        except Exception:
            got_locs = msg
        if got_locs != [want_loc]:
            bad("gql_arg_error_loc", got_locs, [want_loc])
    if not (res.errors or res.data != {dyn("get"): data}) and (seen.get("arg") != obj or seen.get("plain") != 7):
        bad("gql_arg_lookup (values received by the resolver)", repr((seen.get("arg"), seen.get("plain"))), repr((obj, 7)))
    return n


def _worker(chunk: List[dict]):
    sub = common.Report("C11", "model_checking")
    cnt = 0
    for c in chunk:
        cnt += observe(sub, c)
        if len(sub.violations) > 10:
            break
    return cnt, sub.violations, sub.cov.get("graphql_skipped_invalid_names", 0)


def main() -> int:

    rep = common.Report("C11", "model_checking")
    thorough = common.tier() == "thorough"
    rep.assumptions = ["aliasers upper / 'p_'+s / to_camel_case / s+'_z' are pairwise non-commuting on the name pool, so equal strings mean equal compositions",
                       "names that are not valid GraphQL identifiers ('$ref') are exercised in every view except the GraphQL ones",
                       "dataclasses only; field types int / Union[int, UndefinedType] / a nested or flattened dataclass"]
    states = trans = n = 0
    tier = "thorough" if thorough else "quick"
    # negative model checks: each named deviation breaks OneNameAll on the model
    for dev in PINNED_DEVIATIONS + SEEDED_SHAPES:
        res = tlc.run_tlc("MC_Names", CFG % ("quick", '{"%s"}' % dev), workers=8, timeout_s=900)
        if res.violated != "OneNameAll":
            raise tlc.MachineryError(f"negative check: deviation {dev} should violate OneNameAll, TLC said {res.violated!r}")
        rep.add("negative_checks")
    res = tlc.run_tlc("MC_Names", CFG % (tier, "{}"), workers=8, env={"EMIT": "1"}, timeout_s=3000)
    states, trans = res.distinct, res.states
    if res.violated:
        rep.violation(f"TLC: {res.violated} violated by the model", {"tlc": res.error_trace[:40]})
    cases = [json.loads(json.loads(p)) for p in res.prints if p.startswith('"')]
    cases = [c for c in cases if "cfg" in c]
    if not cases:
        raise tlc.MachineryError("TLC emitted no configuration")
    cases.sort(key=lambda c: json.dumps([c["cfg"][k] for k in ("struct", "ocal", "ical", "f1", "f2", "g", "link")], sort_keys=True))
    distinct = {json.dumps(c["expect"], sort_keys=True) for c in cases}
    import multiprocessing

    for c in cases[::max(1, len(cases) // 5)]:
        rep.sample({"cfg": c["cfg"], "external_names": {r: ev(t) for r, t in c["expect"].items()}})

    nproc = 12
    chunks = [cases[i * len(cases) // nproc:(i + 1) * len(cases) // nproc] for i in range(nproc)]
    with multiprocessing.get_context("fork").Pool(nproc) as pool:
        for cnt, viols, skipped in pool.map(_worker, chunks):
            n += cnt
            rep.violations.extend(viols)
            rep.add("graphql_skipped_invalid_names", skipped)
    rep.set("states", states)
    rep.set("transitions", trans)
    rep.set("configurations_replayed", len(cases))
    rep.set("traces_validated_against_impl", n)
    rep.set("evaluations", n)
    rep.set("distinct_nontrivial", len(distinct))
    rep.set("rule", "distinct expected name assignments (six symbolic terms); each configuration observed in up to 19 views")
    return rep.finish()


def replay(path: str) -> int:
    print(json.dumps(json.load(open(path)), indent=1)[:6000])
    return 1
