"""C06 -- deserialize and deserialization_schema agree on what is valid."""
from __future__ import annotations

import json
from typing import Any, Dict, List

from harness import bridge, common, record, replay_deser, tlc
from harness.engine_deser import MC_CFG

GAP_FINDINGS = {"flattened": "F-flattened-schema", "mapkeys": "F-mapkeys-schema", "discriminated": "F-discriminated-schema",
                "patoverlap": "F-pattern-overlap"}


GENERIC_SRC = '''
from dataclasses import dataclass, field
from typing import Dict, Generic, List, Optional, TypeVar
from apischema import schema

T = TypeVar("T")


@schema(min_props=2, max_props=2)
@dataclass
class Pair(Generic[T]):
    left: Optional[T] = None
    right: Optional[T] = None
    note: Optional[str] = None


@schema(min_props=1)
@dataclass
class Wrap(Generic[T]):
    items: List[T] = field(default_factory=list)


@dataclass
class Plain(Generic[T]):
    x: T
'''


def generic_law(rep: common.Report) -> int:
    """Beyond the universe (its encoding has no generic classes): class-level constraints of a Generic dataclass hold for
    every parametrization; the law of the property itself on the real code: deserialize(G[X], d) accepts iff
    deserialization_schema(G[X]) validates d."""
    import sys
    import types
    from typing import List, Optional

    import apischema.cache
    import jsonschema
    from apischema import ValidationError, deserialize
    from apischema.json_schema import deserialization_schema

    mod = types.ModuleType("verifgeneric6")
    sys.modules["verifgeneric6"] = mod
    exec(compile(GENERIC_SRC, "<verifgeneric6>", "exec"), mod.__dict__)
    data = [{}, {"left": 1}, {"left": 1, "right": 2}, {"left": 1, "right": 2, "note": "n"}, {"left": "a", "right": "b"},
            {"items": []}, {"items": [1]}, {"items": ["a"]}, {"x": 1}, {"x": "a"}, {"x": None}, [], [{}], [{"left": 1, "right": 2}],
            [{"items": [1]}, {}], None, 3]
    n = 0
    for label, tp in (("Pair[int]", mod.Pair[int]), ("Pair[str]", mod.Pair[str]), ("Pair (bare)", mod.Pair), ("Wrap[int]", mod.Wrap[int]),
                      ("Wrap[str]", mod.Wrap[str]), ("Plain[int]", mod.Plain[int]), ("List[Pair[int]]", List[mod.Pair[int]]),
                      ("List[Wrap[int]]", List[mod.Wrap[int]]), ("Optional[Pair[int]]", Optional[mod.Pair[int]])):
        apischema.cache.reset()
        try:
            sch = deserialization_schema(tp)
            validator = jsonschema.Draft202012Validator(sch)
        except Exception as exc:
            rep.violation(f"generic law: deserialization_schema({label}) raised {type(exc).__name__}: {exc}", {"type": label})
            continue
        for d in data:
            n += 1
            try:
                deserialize(tp, d)
                acc = True
            except ValidationError:
                acc = False
            except Exception as exc:
                rep.violation(f"generic law: deserialize({label}, {json.dumps(d)}) raised {type(exc).__name__}", {"type": label, "data": d})
                continue
            if acc != validator.is_valid(d):
                rep.violation(f"generic law: deserialize({label}, {json.dumps(d)}) {'accepts' if acc else 'rejects'} but "
                              f"deserialization_schema({label}) {'rejects' if acc else 'accepts'} (class-level constraints of a generic class)",
                              {"type": label, "data": d, "schema": sch, "deserialize_accepts": acc})
    return n


def main() -> int:
    import apischema.cache
    import jsonschema
    from apischema.json_schema import deserialization_schema

    rep = common.Report("C06", "model_checking")
    thorough = common.tier() == "thorough"
    rep.assumptions = ["jsonschema (Draft 2020-12 validator, vendored offline) is the independent JSON Schema semantics",
                       "common domain: no integer-valued float, start-anchored patterns, format as annotation, uniqueness not "
                       "compared for set-typed positions; fall_back_on_default (no schema counterpart) and coercion excluded",
                       "spec/JsonSchema.tla transcribes the builder's keyword emission (SchemaOf) and the semantics of exactly "
                       "those keywords (Validates)"]
    states = trans = n = skipped = 0
    distinct = set()
    tiers = ["d0", "d1", "u", "d2"] if thorough else ["d0", "d1"]
    for t in tiers:
        res = tlc.run_tlc("MC_Deser", MC_CFG % t + "INVARIANT SchemaAgrees\n", workers=16, env={"EMIT": "1"}, timeout_s=3000)
        states += res.distinct
        trans += res.states
        if res.violated:
            rep.violation(f"TLC: {res.violated} violated on tier {t} (schema model vs data model)", {"tlc": res.error_trace[:60]})
            continue
        header, cases = replay_deser.parse_emitted(res.prints)
        u = replay_deser.Universe(header, [c["type"] for c in cases])
        keyed = sorted(cases, key=lambda c: json.dumps([c["type"], c["opts"]["addl"], c["opts"]["aliname"]], sort_keys=True))
        last = None
        validator = None
        inv_count: dict = {}
        for c in keyed:
            if not c["sdom"]:
                skipped += 1
                continue
            skey = json.dumps([c["type"], c["opts"]["addl"], c["opts"]["aliname"]], sort_keys=True)
            tkey = json.dumps(c["type"], sort_keys=True)
            if skey != last:
                if last is None or json.loads(last)[0] != c["type"]:
                    apischema.cache.reset()
                    replay_deser.clear_typing_caches()
                    u._types.clear()
                last = skey
                tp = u.type(c["type"])
                kw = replay_deser.kwargs_of(u, c["opts"])
                skw = {k: v for k, v in kw.items() if k in ("additional_properties", "aliaser")}
                try:
                    schema = deserialization_schema(tp, **skw)
                    validator = jsonschema.Draft202012Validator(schema)
                    schema_err = None
                except Exception as exc:
                    validator, schema_err = None, f"{type(exc).__name__}: {exc}"
                # the explicit argument wins over the global setting: same schema with the setting inverted
                if validator is not None and "additional_properties" in skw:
                    from apischema import settings as _st

                    _st.additional_properties = not skw["additional_properties"]
                    try:
                        schema2 = deserialization_schema(tp, **skw)
                    except Exception as exc:
                        schema2 = f"{type(exc).__name__}: {exc}"
                    finally:
                        _st.additional_properties = False
                    if schema2 != schema:
                        rep.violation(f"deserialization_schema({bridge.type_expr(c['type'])}, additional_properties={skw['additional_properties']}) "
                                      f"changes with settings.additional_properties although the argument is explicit",
                                      {"type": bridge.type_expr(c["type"]), "schema": schema, "with_inverted_setting": schema2})
            if validator is None:
                rep.violation(f"deserialization_schema({bridge.type_expr(c['type'])}) raised {schema_err}",
                              {"type": bridge.type_expr(c["type"]), "opts": c["opts"]})
                continue
            data = bridge.dec_data(c["data"])
            n += 1
            distinct.add(json.dumps([c["type"], c["expect"]["ok"], c["saccept"]]))
            real_schema = validator.is_valid(data)
            out = record.run_deserialize(u.ctx, tp, data, kw)
            real_deser = out["kind"] == "ok"
            inv_count[skey] = inv_count.get(skey, 0) + 1
            if "additional_properties" in kw and c["type"].get("k") in ("obj", "dunion", "union", "coll") \
                    and (inv_count[skey] <= 4 or (not real_deser and inv_count[skey] % 7 == 0)):
                # ... and the same acceptance by deserialize (the method cache is keyed by the resolved options)
                from apischema import settings as _st

                _st.additional_properties = not kw["additional_properties"]
                try:
                    out2 = record.run_deserialize(u.ctx, tp, data, kw)
                finally:
                    _st.additional_properties = False
                if (out2["kind"] == "ok") != real_deser:
                    rep.violation(f"deserialize({bridge.type_expr(c['type'])}, additional_properties={kw['additional_properties']}) "
                                  f"{'accepts' if out2['kind'] == 'ok' else 'rejects'} {json.dumps(data)[:120]} once "
                                  f"settings.additional_properties is inverted, although the argument is explicit",
                                  {"type": bridge.type_expr(c["type"]), "data": c["data"], "opts": {k: v for k, v in c["opts"].items() if k != "ali"}})
            summary = {"type": bridge.type_expr(c["type"]), "type_enc": c["type"], "opts": {k: v for k, v in c["opts"].items() if k != "ali"},
                       "data": c["data"], "schema": schema, "schema_accepts": real_schema, "deserialize_accepts": real_deser,
                       "model_schema_accepts": c["saccept"], "model_conforms": c["expect"]["ok"]}
            if c["saccept"] != c["saccept_u"]:
                # duplicates at a set-typed position: uniqueness is outside the common domain
                if real_schema != c["saccept_u"]:
                    rep.violation(f"the generated schema {'accepts' if real_schema else 'rejects'} {json.dumps(data)[:120]} for "
                                  f"{bridge.type_expr(c['type'])} but the model of the builder (uniqueItems enforced) says the opposite", summary)
                skipped += 1
                continue
            if real_schema != c["saccept"]:
                rep.violation(f"the generated schema {'accepts' if real_schema else 'rejects'} {json.dumps(data)[:120]} for "
                              f"{bridge.type_expr(c['type'])} but the model of the builder says the opposite", summary)
            elif real_schema != real_deser:
                gap = sorted(c["gaps"])[0] if c["gaps"] else None
                rep.violation(f"deserialize {'accepts' if real_deser else 'rejects'} but deserialization_schema "
                              f"{'accepts' if real_schema else 'rejects'}: {bridge.type_expr(c['type'])} <- {json.dumps(data)[:160]}",
                              summary, finding_key=GAP_FINDINGS.get(gap) if gap else None)
            elif n % 4001 == 1:
                rep.sample(summary)
        bridge.cleanup_gen_dir()
    # negative model checks: each known gap, once removed from the exclusions, violates SchemaAgrees
    neg = {}
    for gap, tier in (("flattened", "obj"), ("mapkeys", "d1"), ("discriminated", "d1"), ("patoverlap", "obj")):
        rest = [g for g in GAP_FINDINGS if g != gap]
        cfg = (MC_CFG % tier).replace('SchemaGaps = {"flattened", "mapkeys", "discriminated", "patoverlap"}',
                                      "SchemaGaps = {" + ", ".join(f'"{g}"' for g in rest) + "}") + "INVARIANT SchemaAgrees\n"
        r = tlc.run_tlc("MC_Deser", cfg, workers=16, env={"EMIT": "0"}, timeout_s=3000)
        neg[gap] = r.violated
        if r.violated != "SchemaAgrees":
            raise tlc.MachineryError(f"negative model check: gap '{gap}' no longer violates SchemaAgrees")
    rep.set("generic_class_law_cases", generic_law(rep))
    rep.set("negative_checks", neg)
    rep.set("states", states)
    rep.set("transitions", trans)
    rep.set("traces_validated_against_impl", n)
    rep.set("evaluations", n)
    rep.set("cases_outside_common_domain", skipped)
    rep.set("distinct_nontrivial", len(distinct))
    rep.set("rule", "distinct (type, conforms, schema accepts) classes over (type, options, datum) cases in the common domain")
    return rep.finish()


def replay(path: str) -> int:
    print(json.dumps(json.load(open(path)), indent=1)[:5000])
    return 1
