from harness import common, engine_deser, sublaw


def main() -> int:
    rep = common.Report("C03", "model_checking")
    rep.assumptions = ["the reference semantics (spec/DataModel.tla) is my reading of the documented data model",
                       "regex matching and int()/float() parsing are Python's own, carried as string attributes",
                       "bounded universe (spec/Universe.tla) + seeded random deep types beyond it",
                       "classes derived from a primitive (class Port(int)) are outside the universe's encoding: the law 'behaves as its primitive base, the value being an instance of the class' is checked on the real code on both sides (harness/sublaw.py)"]
    engine_deser.run("C03", rep, exotic=True)
    rep.set("subprimitive_law_calls", sublaw.run(rep, "C03", [{}, {"coerce": True}]))
    return rep.finish()


def replay(path: str) -> int:
    from harness import replay_one

    return replay_one.replay("C03", path)
