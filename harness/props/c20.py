"""C20 -- concurrent first use is safe (spec/RecCheck.tla)."""
from __future__ import annotations

import json
import os
import random
import time
import shutil
import threading
from typing import Any, Dict, List

from harness import common, recgraphs, sched, tlc

MC_CFG = """CONSTANTS Nodes <- GNodes
 Succ <- GSucc
 Threads <- GThreads
 Prog <- GProg
 UseLock = %s
 Deviations = {%s}
SPECIFICATION %s
VIEW View
INVARIANT CacheSound
INVARIANT ResultSound
INVARIANT OneAnalyst
%s
CHECK_DEADLOCK TRUE
"""

SIM_CFG = """CONSTANTS Nodes <- GNodes
 Succ <- GSucc
 Threads <- GThreads
 Prog <- GProg
 UseLock = FALSE
 Deviations = {%s}
INIT SimInit
NEXT SimNext
"""

TRACE_CFG = """INIT TraceInit
NEXT TraceNext
INVARIANT CacheSound
INVARIANT ResultSound
CONSTRAINT Progress
POSTCONDITION TraceAccepted
CHECK_DEADLOCK FALSE
"""


def model_check(rep: common.Report, thorough: bool):
    states = trans = 0
    for gname, graph in recgraphs.GRAPHS.items():
        for prog in recgraphs.PROGRAMS[gname]:
            if (len(prog) > 2 and not thorough and gname != "G1") or (gname == "G5" and len(prog) > 1 and not thorough):
                continue
            gen = {"MC_RecGen.tla": recgraphs.mc_module("MC_RecGen", graph, prog)}
            # safety of the repaired design, all interleavings
            r = tlc.run_tlc("MC_RecGen", MC_CFG % ("TRUE", "", "Spec", ""), workers=8, deadlock=True, extra_files=gen)
            states += r.distinct
            trans += r.states
            if r.violated:
                rep.violation(f"TLC: {r.violated} violated by the locked design on {gname} {prog}",
                              {"graph": gname, "prog": prog, "trace": r.error_trace[:80]})
            # termination under weak fairness
            r = tlc.run_tlc("MC_RecGen", MC_CFG % ("TRUE", "", "FairSpec", "PROPERTY Termination"), workers=4,
                            deadlock=True, extra_files=gen)
            states += r.distinct
            trans += r.states
            if r.violated:
                rep.violation(f"TLC: termination violated on {gname} {prog}",
                              {"graph": gname, "prog": prog, "trace": r.error_trace[:80]})
    # negative model check: the lock-free design (deviation F17 of the pinned tree, repaired by a
    # fix: commit) MUST violate CacheSound -- the invariant is not vacuous where the defect lived
    gen = {"MC_RecGen.tla": recgraphs.mc_module("MC_RecGen", recgraphs.GRAPHS["G1"], recgraphs.PROGRAMS["G1"][0])}
    r = tlc.run_tlc("MC_RecGen", MC_CFG % ("FALSE", '"skiptrue"', "Spec", ""), workers=4, deadlock=True, extra_files=gen)
    rep.set("negative_check_pinned_tree_design_violates", r.violated or "NOT VIOLATED")
    if r.violated != "CacheSound":
        raise tlc.MachineryError("negative model check: the design of the pinned tree (lock-free, skipping keys cached "
                                 "as recursive) no longer violates CacheSound")
    # with the repaired skip rule the lock is belt and braces: the lock-free design is sound as well
    for gname in ("G1", "G3", "G6"):
        for prog in recgraphs.PROGRAMS[gname]:
            gen2 = {"MC_RecGen.tla": recgraphs.mc_module("MC_RecGen", recgraphs.GRAPHS[gname], prog)}
            r2 = tlc.run_tlc("MC_RecGen", MC_CFG % ("FALSE", "", "Spec", ""), workers=8, deadlock=True, extra_files=gen2)
            states += r2.distinct
            trans += r2.states
            if r2.violated:
                rep.violation(f"TLC: {r2.violated} violated by the lock-free design with the repaired skip rule on {gname}",
                              {"graph": gname, "prog": prog, "trace": r2.error_trace[:80]})
    # the lazily initialised slot of RecMethod (spec/LazySlot.tla): every interleaving of 2-3 threads
    lazy_cfg = "CONSTANTS Threads = {%s}\n Deviations = {%s}\nSPECIFICATION Spec\nVIEW View\nINVARIANT NoEmptyUse\n"
    for ths in ('"a", "b"', '"a", "b", "c"'):
        rl = tlc.run_tlc("LazySlot", lazy_cfg % (ths, ""), workers=4)
        states += rl.distinct
        trans += rl.states
        if rl.violated:
            rep.violation(f"TLC: {rl.violated} violated by the lazy slot protocol", {"trace": rl.error_trace[:60]})
    rl = tlc.run_tlc("LazySlot", lazy_cfg % ('"a", "b"', '"clearfirst"'), workers=4)
    rep.set("negative_check_lazy_slot_cleared_first_violates", rl.violated or "NOT VIOLATED")
    if rl.violated != "NoEmptyUse":
        raise tlc.MachineryError("negative model check: clearing the closure first no longer violates NoEmptyUse")
    # negative model check 2: skipping keys cached as recursive (deviation "skiptrue" of the pinned tree,
    # repaired by a fix: commit) must violate CacheSound with ONE thread on graph G5
    gen = {"MC_RecGen.tla": recgraphs.mc_module("MC_RecGen", recgraphs.GRAPHS["G5"], recgraphs.PROGRAMS["G5"][0])}
    r = tlc.run_tlc("MC_RecGen", MC_CFG % ("TRUE", '"skiptrue"', "Spec", ""), workers=4, deadlock=True, extra_files=gen)
    rep.set("negative_check_skip_cached_recursive_keys_violates", r.violated or "NOT VIOLATED")
    if r.violated not in ("CacheSound", "ResultSound"):
        raise tlc.MachineryError("negative model check: skipping cached recursive keys no longer violates CacheSound")
    return states, trans


def tla_schedules(graph, prog, n: int, seed: int) -> List[dict]:
    """Interleavings of the shared accesses generated by TLC from the lock-free designs: the one with
    the repaired skip rule (what the code does between lock operations) and the one of the pinned tree
    (the adversary that used to poison the cache)."""
    gen = {"MC_RecGen.tla": recgraphs.mc_module("MC_RecGen", graph, prog)}
    out = []
    for dev in ("", '"skiptrue"'):
        r = tlc.run_tlc("MC_RecSim", SIM_CFG % dev, workers=1, extra_files=gen, simulate=f"num={n}", depth=600, seed=seed)
        for p in r.prints:
            if p.startswith('"'):
                out.append(json.loads(json.loads(p)))
    return out


def bodies_for(mod, prog: Dict[str, List[str]]):
    import apischema.recursion as R
    from apischema.conversions.converters import default_deserialization

    def body(roots):
        def run():
            res = []
            for root in roots:
                tp = getattr(mod, root)
                # looked up at call time: the harness' instrumented is_recursive
                res.append(R.is_recursive(tp, None, default_deserialization, R.DeserializationRecursiveChecker))
            return res
        return run

    return {t: body(roots) for t, roots in prog.items()}


def replay_schedule(graph, prog, schedule, tag: str):
    """Run the real threads under a TLC-generated interleaving of the shared accesses."""
    import apischema.recursion as R

    mod, keymap = recgraphs.build_classes(graph, tag)
    steps = [(s["t"], s["op"], s["key"]) for s in schedule]
    ctl = sched.Controller(keymap, steps)
    with sched.Installed(ctl) as inst:
        results = sched.run_threads(ctl, bodies_for(mod, prog))
        cache = inst.caches.get(R.DeserializationRecursiveChecker, {})
        final = {ctl.key_name(k): dict.__getitem__(cache, k) for k in dict.keys(cache)}
    truth = recgraphs.true_rec(graph)
    problems = []
    for k, v in final.items():
        if truth.get(k) != v:
            problems.append(f"cache[{k}] = {v}, truth {truth.get(k)}")
    for t, (kind, val) in results.items():
        if kind != "ok":
            problems.append(f"thread {t} raised {val}")
        elif val != [truth[r] for r in prog[t]]:
            problems.append(f"thread {t} got {val} for {prog[t]}")
    import sys

    sys.modules.pop(mod.__name__, None)
    return ctl.status, problems, ctl.log


def free_run(rng: random.Random, idx: int, n_threads: int, extra: bool = False):
    """Real threads, 1 us switch interval, public deserialize on fresh recursive types."""
    import apischema.recursion as R
    from apischema import deserialize

    graph = recgraphs.random_graph(rng)
    mod, keymap = recgraphs.build_classes(graph, f"free{idx}")
    classes = list(graph)
    ctl = sched.Controller(keymap, None)
    ctl.yield_lazy = True
    # `extra` runs add schema generation and lazily registered conversions: they analyse types the model of the
    # recursion cache does not name, so these runs are compared with the sequential results only (no trace)
    ctl.only_checker = "none: results only" if extra else "DeserializationRecursiveChecker"

    def sample(cls, depth=2):
        out = {}
        for fname, t in graph[cls]:
            if t == "int":
                out[fname] = 1
            elif isinstance(t, tuple) and t[0] == "opt":
                out[fname] = sample(t[1], depth - 1) if depth > 0 else None
            elif isinstance(t, tuple):
                out[fname] = [sample(t[1], depth - 1)] if depth > 0 else []
            else:
                out[fname] = sample(t, depth)
        return out

    plan = {f"t{i}": rng.sample(classes, min(len(classes), rng.randint(1, 3))) for i in range(n_threads)}
    if rng.random() < 0.5:
        # every thread starts with the same type: they reach the same lazily initialised methods at once
        first = rng.choice(classes)
        plan = {t: [first] + [c for c in cs if c != first] for t, cs in plan.items()}

    from apischema import serialize
    from apischema.conversions import Conversion, deserializer, serializer
    from apischema.json_schema import deserialization_schema, serialization_schema
    from typing import List as _List

    # a class converted through LAZILY registered conversions (their first evaluation is slow): every thread
    # uses it for the first time at about the same moment
    class LZ:
        def __init__(self, n):
            self.n = n

        def __repr__(self):
            return f"LZ({self.n})"

    LZ.__qualname__ = LZ.__name__ = f"LZ{idx}"

    def lazy_d():
        time.sleep(0.002)
        return Conversion(LZ, source=int, target=LZ)

    def lazy_s():
        time.sleep(0.002)
        return Conversion(lambda x: x.n, source=LZ, target=int)

    deserializer(lazy=lazy_d, target=LZ)
    serializer(lazy=lazy_s, source=LZ)

    # a class serialized (lazily, slowly the first time) as a NewType over int, inside a container whose RESOLVED
    # form List[Cents] is itself a named type: schema generation resolves the conversion of the container first
    from dataclasses import dataclass as _dc
    from typing import NewType as _NT

    from apischema import type_name as _type_name
    from apischema.objects import object_serialization as _objser

    Cents = _NT(f"Cents{idx}", int)

    class AM:
        def __init__(self, n):
            self.n = n

    AM.__qualname__ = AM.__name__ = f"AM{idx}"
    _type_name(f"CentsList{idx}")(_List[Cents])

    def lazy_am():
        time.sleep(0.002)
        return Conversion(lambda x: Cents(x.n), source=AM, target=Cents)

    serializer(lazy=lazy_am, source=AM)

    # an object_serialization conversion whose members are deferred in a (slow) function
    @_dc
    class OS:
        ident: int
        content: str

    def size(o):
        return len(o.content)

    size.__annotations__ = {"o": OS, "return": int}     # (this module has postponed annotations)

    def os_members():
        time.sleep(0.002)
        return [..., size]

    os_conv = _objser(OS, os_members)

    import threading as _threading

    gates = [_threading.Barrier(n_threads), _threading.Barrier(n_threads)]

    def meet(gate):
        if gate is not None:
            try:
                gate.wait(5)
            except _threading.BrokenBarrierError:
                pass

    def conv_calls(schema_first: bool, concurrent: bool):
        from apischema import settings as _settings

        def slow_default(tp):      # the public default_conversion hook: every resolution step takes a while
            time.sleep(0.0005)
            return _settings.serialization.default_conversion(tp)

        a = lambda: json.dumps(serialization_schema(_List[AM], all_refs=True, default_conversion=slow_default), sort_keys=True)  # noqa: E731
        b = lambda: repr(serialize(_List[AM], [AM(1), AM(2)]))  # noqa: E731
        c = lambda: json.dumps(serialization_schema(OS, conversion=os_conv), sort_keys=True)  # noqa: E731
        d = lambda: repr(serialize(OS, OS(1, "abc"), conversion=os_conv))  # noqa: E731
        res = {}
        # the FIRST resolutions (slow: the lazy conversion / the deferred members sleep) are entered by all threads together
        meet(gates[0] if concurrent else None)
        res["a"] = a()
        meet(gates[1] if concurrent else None)
        if schema_first:
            res["c"] = c()
            res["d"] = d()
        else:
            res["d"] = d()
            res["c"] = c()
        res["b"] = b()
        return [res[k] for k in "abcd"] + [json.dumps(serialization_schema(OS, conversion=os_conv), sort_keys=True)]

    def lz_calls(schema_first: bool):
        a = lambda: json.dumps(deserialization_schema(LZ), sort_keys=True)  # noqa: E731
        b = lambda: repr(deserialize(LZ, 3))  # noqa: E731
        c = lambda: repr(serialize(LZ, LZ(4)))  # noqa: E731
        d = lambda: json.dumps(serialization_schema(LZ), sort_keys=True)  # noqa: E731
        res = {}
        for k, fn in ((("a", a), ("d", d), ("b", b), ("c", c)) if schema_first else (("b", b), ("c", c), ("a", a), ("d", d))):
            res[k] = fn()
        return [res[k] for k in "abcd"] + [repr(serialize([LZ(5)]))]

    def calls(names, schema_first=False, concurrent=False):
        """deserialize, then serialize the result through the typed method and through the Any method
        (serialize(obj) dispatches on the runtime class: one shared AnyMethod per option vector)."""
        # first use of the lazily converted class, the schema side and the (de)serialization side in a different
        # order from one thread to the next
        out = (conv_calls(schema_first, concurrent) + lz_calls(schema_first)) if extra else []
        for c in names:
            obj = deserialize(getattr(mod, c), sample(c))
            out += [repr(obj), repr(serialize(obj)), repr(serialize(getattr(mod, c), obj)), repr(serialize([obj, 1]))]
            if extra:
                # schema generation walks the same types with its own (per call) recursion guards
                out += [json.dumps(deserialization_schema(_List[getattr(mod, c)]), sort_keys=True)[:400],
                        json.dumps(serialization_schema(getattr(mod, c)), sort_keys=True)[:400]]
        return out

    def body(names, k=0):
        def run():
            return calls(names, schema_first=bool(k % 2), concurrent=True)
        return run

    with sched.Installed(ctl) as inst:
        results = sched.run_threads(ctl, {t: body(cs, k) for k, (t, cs) in enumerate(plan.items())}, switch_interval=1e-6)
        cache = inst.caches.get(R.DeserializationRecursiveChecker, {})
        final = {ctl.key_name(k): dict.__getitem__(cache, k) for k in dict.keys(cache)}
    # sequential baseline: same calls, one thread, fresh caches
    import apischema.cache

    apischema.cache.reset()
    problems = []
    baseline = {}
    for k, (t, cs) in enumerate(plan.items()):
        try:
            baseline[t] = calls(cs, schema_first=bool(k % 2))
        except Exception as exc:  # the verdict stays total: what the threads left behind changes LATER results
            baseline[t] = ("raised", type(exc).__name__, str(exc)[:200])
            problems.append(f"the sequential run AFTER the concurrent one raised {type(exc).__name__}: {exc} (thread {t}'s calls): "
                            "the interleaving left a state behind that changes later results")
    apischema.cache.reset()
    for t, (kind, val) in results.items():
        if kind != "ok" or val != baseline[t]:
            problems.append(f"thread {t}: concurrent {kind} {val!r} vs sequential {baseline[t]!r}")
    truth = recgraphs.true_rec(graph)
    for k, v in final.items():
        if k in truth and truth[k] != v:
            problems.append(f"cache[{k}] = {v}, truth {truth[k]}")
    import sys

    sys.modules.pop(mod.__name__, None)
    return graph, plan, ctl.log, problems


def validate_traces(runs: List[dict], wd: str):
    """Concatenate the runs (disjoint name spaces) into one behaviour and validate it with TLC."""
    nodes: List[str] = []
    succ: List[list] = []
    threads: List[str] = []
    events: List[dict] = []
    for i, run in enumerate(runs):
        pre = f"r{i}."
        s = recgraphs.succ_of(run["graph"])
        for n, ms in s.items():
            nodes.append(pre + n)
            succ.append([pre + n, [pre + m for m in ms]])
        tset = sorted({e["t"] for e in run["log"]})
        threads.extend(pre + t for t in tset)
        for e in run["log"]:
            if e["op"] == "ret":
                continue
            if e["op"] == "call" and e["val"] != "DeserializationRecursiveChecker":
                continue
            events.append({"t": pre + e["t"], "op": e["op"], "key": (pre + e["key"]) if e["key"] else "",
                           "val": e["val"]})
    path = os.path.join(wd, "rectrace.json")
    with open(path, "w") as fh:
        json.dump({"nodes": nodes, "succ": succ, "threads": threads, "events": events}, fh)
    r = tlc.run_tlc("Trace_RecCheck", TRACE_CFG, workers=1, env={"TRACE_FILE": path}, timeout_s=1800)
    return r, len(events)


def sequential_sweep(rep: common.Report, n_random: int, rng: random.Random) -> int:
    """Single thread, many graphs: is_recursive of the real code against the ground truth, for every
    root of hand-listed and random graphs (the model checks the same on its pool; this is where a
    graph-shaped defect of the sequential algorithm -- like G5 -- shows up on new shapes)."""
    import apischema.cache
    import apischema.recursion as R
    from apischema.conversions.converters import default_deserialization

    graphs = list(recgraphs.GRAPHS.values()) + [recgraphs.random_graph(rng) for _ in range(n_random)]
    n = 0
    for gi, graph in enumerate(graphs):
        truth = recgraphs.true_rec(graph)
        orders = [list(graph), list(reversed(list(graph)))]
        for oi, order in enumerate(orders):
            mod, keymap = recgraphs.build_classes(graph, f"seq{gi}_{oi}")
            apischema.cache.reset()
            for root in order:
                n += 1
                got = R.is_recursive(getattr(mod, root), None, default_deserialization, R.DeserializationRecursiveChecker)
                if got != truth[root]:
                    rep.violation(f"sequential analysis: is_recursive({root}) = {got}, truth {truth[root]}",
                                  {"graph": graph, "order": order})
            cache = R.recursion_cache(R.DeserializationRecursiveChecker)
            inv = {v: k for k, v in keymap.items()}
            for (tp, conv), bit in list(cache.items()):
                name = keymap.get(tp)
                if conv is None and name in truth and truth[name] != bit:
                    rep.violation(f"sequential analysis: cache[{name}] = {bit}, truth {truth[name]}",
                                  {"graph": graph, "order": order})
            import sys

            sys.modules.pop(mod.__name__, None)
    apischema.cache.reset()
    return n


def main() -> int:
    rep = common.Report("C20", "model_checking")
    thorough = common.tier() == "thorough"
    rep.assumptions = ["only the instrumented shared accesses (recursion cache dict operations, the analysis lock) are "
                       "scheduled; races inside C-level functools.lru_cache are out of reach",
                       "dict operations are atomic under the GIL"]
    states, trans = model_check(rep, thorough)
    # ---- spec -> code: adversarial interleavings generated by TLC from the lock-free design
    n_sched = 120 if thorough else 25
    counts: Dict[str, int] = {}
    replayed = 0
    distinct = set()
    for gname, graph in recgraphs.GRAPHS.items():
        for pi, prog in enumerate(recgraphs.PROGRAMS[gname]):
            if len(prog) < 2:
                continue
            scheds = tla_schedules(graph, prog, n_sched, common.seed() + 17 * pi + 1)
            seen = set()
            for si, s in enumerate(scheds):
                key = json.dumps(s["sched"])
                if key in seen:
                    continue
                seen.add(key)
                distinct.add(gname + key)
                status, problems, log = replay_schedule(graph, prog, s["sched"], f"{gname}_{pi}_{si}")
                replayed += 1
                tag = status + ("/model-unsound" if not s["sound"] else "")
                counts[tag] = counts.get(tag, 0) + 1
                if problems:
                    rep.violation(f"schedule replay on {gname} {prog}: " + "; ".join(problems),
                                  {"graph": gname, "prog": prog, "schedule": s["sched"], "status": status,
                                   "log": log[:200]})
                if replayed % 60 == 1:
                    rep.sample({"graph": gname, "prog": prog, "schedule": s["sched"][:12], "model_says_sound": s["sound"],
                                "feasible_in_code": status})
    rep.set("schedule_replay_status", counts)
    rep.set("sequential_sweep_queries", sequential_sweep(rep, 1500 if thorough else 300, random.Random(common.seed() + 11)))
    # ---- code -> spec: free-running threads, traces validated by TLC
    rng = random.Random(common.seed())
    n_runs = 200 if thorough else 40
    runs = []
    for i in range(n_runs):
        graph, plan, log, problems = free_run(rng, i, rng.choice([2, 3, 4]))
        runs.append({"graph": graph, "log": log})
        for p in problems:
            rep.violation("free-running threads: " + p, {"graph": graph, "plan": plan, "log": log[:300]})
    n_extra = n_runs // 2
    for i in range(n_extra):
        graph, plan, log, problems = free_run(rng, 10000 + i, rng.choice([2, 3, 4]), extra=True)
        for p in problems:
            rep.violation("free-running threads (with schema generation and lazy conversions): " + p, {"graph": graph, "plan": plan})
    rep.set("free_runs_with_schemas_and_lazy_conversions", n_extra)
    # ---- every call has a sequential meaning: first uses of fresh classes and calls through shared compiled methods,
    # from several threads at once, each with data of its own (harness/storm.py)
    from harness import storm

    storm_calls = 0
    for k in range(6 if thorough else 2):
        for p in storm.first_use_storm(4, 60 if thorough else 40, f"s{k}")[:5]:
            rep.violation("concurrent first uses of fresh classes: " + p, {"round": k})
        calls, problems = storm.steady_storm(4, 12000 if thorough else 6000, f"s{k}")
        storm_calls += calls
        for p in problems[:5]:
            rep.violation("concurrent calls through shared compiled methods: " + p, {"round": k})
    rep.set("storm_calls_through_shared_methods", storm_calls)
    wd = tlc.scratch_dir("verifrec_")
    try:
        validated = 0
        for chunk in range(0, len(runs), 20):
            r, n_ev = validate_traces(runs[chunk:chunk + 20], wd)
            states += r.distinct
            trans += r.states
            if r.violated and r.violated != "postcondition":
                rep.violation(f"recorded trace violates {r.violated}", {"trace": r.error_trace[:60]})
            elif not r.ok:
                where = [p for p in r.prints if "REJECTED_AT" in p]
                rep.violation("recorded trace is not a behaviour of the locked RecCheck model "
                              f"(matched a prefix of {r.depth - 1} of {n_ev} events): {where[:1]}",
                              {"tail": r.raw_tail[-1500:], "where": where, "runs": [x["graph"] for x in runs[chunk:chunk + 20]]})
            else:
                validated += 20
    finally:
        shutil.rmtree(wd, ignore_errors=True)
    rep.set("states", states)
    rep.set("transitions", trans)
    rep.set("traces_validated_against_impl", len(runs))
    rep.set("schedules_replayed_in_code", replayed)
    rep.set("evaluations", replayed + len(runs))
    rep.set("distinct_nontrivial", len(distinct))
    rep.set("rule", "distinct TLC-generated interleavings of the shared accesses (graph x program x schedule)")
    rep.sample({"free_run_log_head": runs[0]["log"][:10]})
    return rep.finish()


def replay(path: str) -> int:
    with open(path) as fh:
        blob = json.load(fh)
    case = blob["case"]
    print("what:", blob["what"])
    if "schedule" in case:
        graph = recgraphs.GRAPHS[case["graph"]]
        status, problems, log = replay_schedule(graph, case["prog"], case["schedule"], "replay")
        print("status:", status)
        for e in log:
            print(e)
        print("problems:", problems)
        return 1 if problems else 0
    print(json.dumps(case)[:3000])
    return 1
