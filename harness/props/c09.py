"""C09 -- cached methods never go stale across configuration histories (spec/Cache.tla)."""
from __future__ import annotations

import json
import os
import shutil
from concurrent.futures import ProcessPoolExecutor
from typing import Dict, List, Optional, Tuple

from harness import cachepool as CP
from harness import common, tlc

ALL_MECHS = ["meta", "plainattr", "setitem", "delitem", "inplace", "plaindict", "classset"]


def tla_str_set(xs) -> str:
    return "{" + ", ".join(f'"{x}"' for x in xs) + "}"


def gen_module(deps: Dict[str, set], conflate_keys: bool) -> str:
    knobs = list(CP.KNOBS)
    vals = " [] ".join(f'k = "{k}" -> {{{", ".join(str(v) for v in CP.KNOBS[k]["vals"])}}}' for k in knobs)
    mech = " [] ".join(
        f'k = "{k}" -> [v \\in 0..2 |-> ' + " ".join(
            f'IF v = {v} THEN "{CP.mech_of(k, v)}" ELSE' for v in CP.KNOBS[k]["vals"]) + ' "none"]'
        for k in knobs)
    depst = " [] ".join(f'o = "{o}" -> {tla_str_set(sorted(deps[o]))}' for o in CP.OBS)
    keyt = " [] ".join(f'o = "{o}" -> "{CP.KEY[o] if conflate_keys else o}"' for o in CP.OBS)
    return f"""---- MODULE MC_CacheGen ----
EXTENDS Cache
GKnobs == {tla_str_set(knobs)}
GVals == [k \\in GKnobs |-> CASE {vals}]
GInit == [k \\in GKnobs |-> 0]
GMech == [k \\in GKnobs |-> CASE {mech}]
GObs == {tla_str_set(CP.OBS)}
GHoldable == {tla_str_set(CP.HOLDABLE)}
GDeps == [o \\in GObs |-> CASE {depst}]
GKey == [o \\in GObs |-> CASE {keyt}]
====
"""


def cfg(noreset: List[str], maxlen: int, view: bool, invs=("NoStale", "NeverObservedStale"), extra="") -> str:
    return ("CONSTANTS Knobs <- GKnobs\n Vals <- GVals\n Init0 <- GInit\n Mech <- GMech\n Obs <- GObs\n Deps <- GDeps\n"
            f" Key <- GKey\n Holdable <- GHoldable\n NoReset = {tla_str_set(noreset)}\n MaxLen = {maxlen}\nSPECIFICATION Spec\n"
            + ("VIEW View\n" if view else "") + "".join(f"INVARIANT {i}\n" for i in invs) + extra)


def _obs_job(args):
    ops = args
    return CP.run_history(ops)


def empirical_deps(ex: ProcessPoolExecutor) -> Tuple[Dict[str, set], Dict[str, str]]:
    """Which knobs an observation depends on: toggled alone from the default, in cold starts."""
    base_jobs = [[{"op": "observe", "obs": o}] for o in CP.OBS]
    base = dict(zip(CP.OBS, (r[0] for r in ex.map(_obs_job, base_jobs, chunksize=4))))
    jobs, idx = [], []
    for k, spec in CP.KNOBS.items():
        for v in spec["vals"]:
            if v == 0:
                continue
            for o in CP.OBS:
                jobs.append([{"op": "mutate", "knob": k, "val": v}, {"op": "observe", "obs": o}])
                idx.append((k, o))
    deps: Dict[str, set] = {o: set() for o in CP.OBS}
    for (k, o), r in zip(idx, ex.map(_obs_job, jobs, chunksize=16)):
        if r[1] != base[o]:
            deps[o].add(k)
    # second order: a custom coercer only matters when coercion is on
    for o in CP.OBS:
        if "de.coerce" in deps[o]:
            deps[o].add("de.coercer")
    return deps, base


class ColdTable:
    """Cold start oracle: a fresh interpreter replaying only the configuration operations."""

    def __init__(self, ex: ProcessPoolExecutor):
        self.ex = ex
        self.memo: Dict[str, str] = {}

    def key(self, muts: List[dict], obs: str) -> str:
        return json.dumps([[m["knob"], m["val"]] for m in muts] + [obs])

    def fill(self, wanted: List[Tuple[List[dict], str]]):
        todo = {}
        for muts, obs in wanted:
            k = self.key(muts, obs)
            if k not in self.memo and k not in todo:
                todo[k] = muts + [{"op": "observe", "obs": obs}]
        for k, r in zip(todo, self.ex.map(_obs_job, list(todo.values()), chunksize=8)):
            self.memo[k] = r[-1]

    def get(self, muts: List[dict], obs: str) -> str:
        return self.memo[self.key(muts, obs)]


def check_histories(rep: common.Report, hists: List[List[dict]], ex: ProcessPoolExecutor, cold: ColdTable,
                    label: str, traces: List[list]) -> int:
    results = list(ex.map(_obs_job, hists, chunksize=8))
    wanted = []
    for h in hists:
        muts: List[dict] = []
        hold_cfg: Dict[str, List[dict]] = {}
        for op in h:
            if op["op"] == "mutate":
                muts = muts + [op]
            elif op["op"] == "observe":
                wanted.append((muts, op["obs"]))
            elif op["op"] == "hold":
                hold_cfg[op["obs"]] = muts
            elif op["op"] == "callheld":
                wanted.append((muts, op["obs"]))
                wanted.append((hold_cfg.get(op["obs"], muts), op["obs"]))
    cold.fill(wanted)
    n = 0
    for h, res in zip(hists, results):
        muts = []
        hold_cfg = {}
        events = []
        for op, r in zip(h, res):
            if op["op"] == "mutate":
                muts = muts + [op]
                if r is not None and r.startswith("mutation-failed"):
                    rep.violation(f"{label}: configuration operation failed: {r}", {"history": h})
                events.append({"op": "mutate", "knob": op["knob"], "val": op["val"], "reset": r == "reset"})
            elif op["op"] == "observe":
                n += 1
                exp = cold.get(muts, op["obs"])
                events.append({"op": "observe", "obs": op["obs"], "fresh": r == exp})
                if r != exp:
                    rep.violation(f"{label}: stale result for {op['obs']} after {[(m['knob'], m['val']) for m in muts]}",
                                  {"history": h, "observed": _short(r), "cold_start": _short(exp)},
                                  finding_key=finding_of(h, op))
            elif op["op"] == "hold":
                hold_cfg[op["obs"]] = muts
                events.append({"op": "hold", "obs": op["obs"]})
            elif op["op"] == "callheld":
                n += 1
                if r not in (cold.get(muts, op["obs"]), cold.get(hold_cfg.get(op["obs"], muts), op["obs"])):
                    rep.violation(f"{label}: held method for {op['obs']} returns neither the former nor the current behaviour",
                                  {"history": h, "observed": _short(r)})
                events.append({"op": "callheld", "obs": op["obs"]})
            elif op["op"] == "reset":
                events.append({"op": "reset"})
        traces.append(events)
    return n


def finding_of(h: List[dict], op: dict) -> Optional[str]:
    """The only listed finding: Union[int, str] / Union[str, int] share one cache key."""
    if op["obs"] in ("d.UIS", "d.USI"):
        other = "d.USI" if op["obs"] == "d.UIS" else "d.UIS"
        if any(o["op"] in ("observe", "hold") and o.get("obs") == other for o in h):
            return "F-unionkey"
    return None


def _short(s: Optional[str]) -> str:
    return (s or "")[:600]


def parse_hists(prints: List[str]) -> List[List[dict]]:
    seen, out = set(), []
    for p in prints:
        if p.startswith('"') and p not in seen:
            seen.add(p)
            out.append(json.loads(json.loads(p)))
    return out


TRACE_CFG_HEAD = "CONSTANTS Knobs <- GKnobs\n Vals <- GVals\n Init0 <- GInit\n Mech <- GMech\n Obs <- GObs\n Deps <- GDeps\n Key <- GKey\n Holdable <- GHoldable\n NoReset = {}\n MaxLen = 1000\nINIT TraceInit\nNEXT TraceNext\nCHECK_DEADLOCK FALSE\n"


def main() -> int:
    rep = common.Report("C09", "model_checking")
    thorough = common.tier() == "thorough"
    rep.assumptions = ["the abstract artefact is the projection of the configuration on the observation's dependencies; "
                       "value-level comparison is real result vs cold start (fresh forked interpreter)",
                       "dependencies of an observation are measured empirically by first-order toggling in cold starts"]
    states = trans = 0
    with ProcessPoolExecutor(max_workers=16) as ex:
        deps, base = empirical_deps(ex)
        rep.set("knobs", len(CP.KNOBS))
        rep.set("observations", len(CP.OBS))
        gen = {"MC_CacheGen.tla": gen_module(deps, conflate_keys=False)}
        gen_conf = {"MC_CacheGen.tla": gen_module(deps, conflate_keys=True)}
        # 1. design: every mechanism resets => nothing stale, in every history up to the bound
        r = tlc.run_tlc("MC_CacheGen", cfg([], 3, True), workers=16, extra_files=gen, timeout_s=3000)
        states += r.distinct
        trans += r.states
        if r.violated:
            rep.violation(f"TLC: {r.violated} violated by the cache design", {"trace": r.error_trace[:60]})
        # 2. negative model checks: every non-resetting mechanism of the pinned tree, and the key conflation
        neg = {}
        for mech in ("delitem", "plainattr", "plaindict", "inplace", "classset"):
            rr = tlc.run_tlc("MC_CacheGen", cfg([mech], 3, True), workers=16, extra_files=gen, timeout_s=3000)
            neg[mech] = rr.violated
            if rr.violated not in ("NoStale", "NeverObservedStale"):
                raise tlc.MachineryError(f"negative model check: a non-resetting '{mech}' no longer violates NoStale")
        rr = tlc.run_tlc("MC_CacheGen", cfg([], 3, True), workers=16, extra_files=gen_conf, timeout_s=3000)
        neg["unionkey"] = rr.violated
        if rr.violated not in ("NoStale", "NeverObservedStale"):
            raise tlc.MachineryError("negative model check: the conflated Union key no longer yields a stale observation")
        rep.set("negative_checks", neg)
        # 3. spec -> code: histories enumerated by TLC, replayed in forked interpreters
        cold = ColdTable(ex)
        traces: List[list] = []
        r = tlc.run_tlc("MC_CacheEmit", cfg([], 3, False, invs=("EmitHist",)), workers=16, extra_files=gen_conf,
                        env={"EMIT": "1"}, timeout_s=3000)
        hists = parse_hists(r.prints)
        states += r.distinct
        trans += r.states
        if not thorough:
            # quick: every (observe, mutate, observe) history, a seeded third of the others
            import random

            rng = random.Random(common.seed())
            core = [h for h in hists if len(h) == 3 and h[0]["op"] == "observe" and h[1]["op"] == "mutate"
                    and h[2]["op"] == "observe" and h[0]["obs"] == h[2]["obs"]]
            rest = [h for h in hists if h not in core]
            hists = core + rng.sample(rest, min(len(rest), 1500))
        n_obs = check_histories(rep, hists, ex, cold, "exhaustive histories (length <= 3)", traces)
        # set_size then a dependent mutation: the reset of the mutation must reach the rebuilt caches
        ss_hists = []
        for o in CP.OBS:
            ks = sorted(k for k in deps[o] if k != "ca.set_size")
            for k in ks[:2]:
                v = [x for x in CP.KNOBS[k]["vals"] if x != 0][0]
                ss_hists.append([{"op": "mutate", "knob": "ca.set_size", "val": 1}, {"op": "observe", "obs": o},
                                 {"op": "mutate", "knob": k, "val": v}, {"op": "observe", "obs": o}])
                ss_hists.append([{"op": "observe", "obs": o}, {"op": "mutate", "knob": "ca.set_size", "val": 2},
                                 {"op": "mutate", "knob": k, "val": v}, {"op": "observe", "obs": o}])
        n_obs += check_histories(rep, ss_hists, ex, cold, "set_size histories", traces)
        rep.set("histories_exhaustive", len(hists))
        # long random histories
        nlong = 600 if thorough else 120
        r = tlc.run_tlc("MC_CacheEmit", cfg([], 16, False, invs=("EmitLong",)), workers=4, extra_files=gen_conf,
                        env={"EMIT": "1"}, simulate=f"num={nlong}", depth=17, seed=common.seed() + 3, timeout_s=3000)
        long_hists = parse_hists(r.prints)
        n_obs += check_histories(rep, long_hists, ex, cold, "random histories (length 16)", traces)
        rep.set("histories_random", len(long_hists))
        for h in (hists[:2] + long_hists[:1]):
            rep.sample({"history": h})
    # 4. code -> spec: the recorded executions (which operations called cache.reset, which observations
    # were fresh) validated against the model by TLC
    wd = tlc.scratch_dir("verifcache_")
    try:
        path = os.path.join(wd, "cachetrace.json")
        with open(path, "w") as fh:
            json.dump(traces, fh)
        r = tlc.run_tlc("Trace_Cache", TRACE_CFG_HEAD, workers=1, env={"TRACE_FILE": path}, extra_files=gen_conf,
                        timeout_s=3000)
        states += r.distinct
        trans += r.states
        if not any("ALLDONE" in p for p in r.prints):
            raise tlc.MachineryError("cache trace validation did not examine every trace\n" + r.raw_tail)
        for p in r.prints:
            if p.startswith('<<"MISMATCH"'):
                parts = [x.strip(' "<>') for x in p.split(",")]
                ti, clause = int(parts[1]), parts[2]
                events = traces[ti - 1]
                fk = "F-unionkey" if any(e.get("obs") in ("d.UIS", "d.USI") for e in events) and clause == "stale-observation" else None
                rep.violation(f"recorded history rejected by the cache model [{clause}]", {"events": events}, finding_key=fk)
    finally:
        shutil.rmtree(wd, ignore_errors=True)
    rep.set("states", states)
    rep.set("transitions", trans)
    rep.set("traces_validated_against_impl", len(traces))
    rep.set("observations_compared_with_cold_start", n_obs)
    rep.set("evaluations", n_obs)
    rep.set("distinct_nontrivial", len({json.dumps(t) for t in traces}))
    rep.set("rule", "distinct histories over the operation alphabet (configuration operations x observations)")
    rep.set("cold_start_runs", len(cold.memo))
    return rep.finish()


def replay(path: str) -> int:
    with open(path) as fh:
        blob = json.load(fh)
    print("what:", blob["what"])
    h = blob["case"].get("history")
    if h:
        res = CP.run_history(h)
        muts = [op for op in h if op["op"] == "mutate"]
        for op, r in zip(h, res):
            print(op, "->", _short(r))
        return 1
    print(json.dumps(blob["case"])[:3000])
    return 1
