from harness import common, engine_deser, sublaw


def main() -> int:
    rep = common.Report("C01", "model_checking")
    rep.assumptions = ["the reference semantics (spec/DataModel.tla) is my reading of the documented data model",
                       "regex matching and int()/float() parsing are Python's own, carried as string attributes",
                       "bounded universe (spec/Universe.tla) + seeded random deep types beyond it",
                       "classes derived from a primitive (class Port(int)) are outside the universe's encoding: the law 'behaves as its primitive base, the value being an instance of the class' is checked on the real code on both sides (harness/sublaw.py)"]
    # the repaired defect "aggregate field names reserved" must contradict the reference semantics
    engine_deser.run("C01", rep, exotic=False, negative={"aggnames": ("DispatchEqSequential", "d1")})
    rep.set("subprimitive_law_calls", sublaw.run(rep, "C01", [{}]))
    return rep.finish()


def replay(path: str) -> int:
    from harness import replay_one

    return replay_one.replay("C01", path)
