from harness import common, engine_deser


def main() -> int:
    rep = common.Report("C01", "model_checking")
    rep.assumptions = ["the reference semantics (spec/DataModel.tla) is my reading of the documented data model",
                       "regex matching and int()/float() parsing are Python's own, carried as string attributes",
                       "bounded universe (spec/Universe.tla) + seeded random deep types beyond it"]
    # the repaired defect "aggregate field names reserved" must contradict the reference semantics
    engine_deser.run("C01", rep, exotic=False, negative={"aggnames": ("DispatchEqSequential", "d1")})
    return rep.finish()


def replay(path: str) -> int:
    from harness import replay_one

    return replay_one.replay("C01", path)
