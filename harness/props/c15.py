"""C15 -- field-set tracking reflects the input and drives exclude_unset (spec/FieldsSet.tla)."""
from __future__ import annotations

import json
import random
import sys
import types
from typing import Any, Dict, List

from harness import common, tlc

CFG = """CONSTANTS Shapes <- MCShapes
 MaxOps = %d
 ShareOnReplace = %s
SPECIFICATION Spec
%s
INVARIANT TypeOK
INVARIANT ExactCollapse
INVARIANT DeserLaw
INVARIANT ExcludeUnsetSound
PROPERTY OrigFrozen
INVARIANT EmitHist
"""

_built: Dict[str, Any] = {}


def class_source(shape: dict) -> str:
    lines = ["from dataclasses import dataclass, field, InitVar", "from typing import Generic, TypeVar",
             "from apischema.fields import with_fields_set", "from apischema.metadata import default_as_set, flatten", "T = TypeVar('T')", ""]
    generic = shape.get("generic")

    for f in shape["fields"]:
        if f["kind"] == "flat":     # the flattened class has ONE field, named like the field holding it: same key
            lines += ["@dataclass", f"class In_{f['name']}:", f"    {f['name']}: int = 0", ""]

    def fld(f):
        if f["kind"] == "flat":
            return f"    {f['name']}: In_{f['name']} = field(default_factory=In_{f['name']}, metadata=flatten)"
        tp = "InitVar[int]" if f["kind"] == "initvar" else "T" if generic and f["name"] == "g" else "int"
        args = []
        if not f["req"]:
            args.append("default=0")
        if f["kind"] == "noinit":
            args.append("init=False")
        if f["das"]:
            args.append("metadata=default_as_set")
        return f"    {f['name']}: {tp}" + (f" = field({', '.join(args)})" if args else "")

    base_fields = [f for f in shape["fields"] if f["owner"] == "base" or not shape["hasSub"]]
    sub_fields = [f for f in shape["fields"] if f["owner"] == "sub" and shape["hasSub"]]
    mixin_fields = []
    if shape.get("mixin"):
        mixin_fields, sub_fields = [f for f in sub_fields if f["name"] == "m"], [f for f in sub_fields if f["name"] != "m"]
    top = "Base" if shape["hasSub"] else "K"
    if shape["deco"]["base"]:
        lines.append("@with_fields_set")
    lines += ["@dataclass", f"class {top}{'(Generic[T])' if generic else ''}:"] + [fld(f) for f in base_fields]
    if any(f["kind"] == "initvar" for f in base_fields):
        lines.append("    def __post_init__(self, " + ", ".join(f["name"] for f in base_fields if f["kind"] == "initvar") + "):")
        lines.append("        pass")
    if mixin_fields:
        lines += ["", "@dataclass", "class Mixin:"] + [fld(f) for f in mixin_fields]
    if shape["hasSub"]:
        lines.append("")
        if shape["deco"]["sub"]:
            lines.append("@with_fields_set")
        if shape.get("custominit"):
            # hand-written __init__: own fields assigned first, then the tracked __init__ of the base
            own = [f["name"] for f in sub_fields]
            lines += ["@dataclass(init=False)", "class K(Base):"] + [f"    {n}: int = 0" for n in own]
            order = [f["name"] for f in base_fields if f["kind"] != "noinit"] + own
            lines += ["    def __init__(self, *args, **kwargs):", f"        kwargs.update(zip({tuple(order)!r}, args))"]
            lines += [f"        self.{n} = kwargs.pop({n!r}, 0)" for n in own] + ["        super().__init__(**kwargs)"]
        else:
            lines += ["@dataclass", f"class K({'Mixin, ' if mixin_fields else ''}Base):"] + ([fld(f) for f in sub_fields] or ["    pass"])
    return "\n".join(lines) + "\n"


def build(shape: dict):
    key = shape["id"]
    if key not in _built:
        name = f"veriffs_{key}"
        mod = types.ModuleType(name)
        sys.modules[name] = mod
        exec(compile(class_source(shape), f"<{name}>", "exec"), mod.__dict__)
        _built[key] = mod
    return _built[key]


def run_ops(shape: dict, ops: List[dict]) -> dict:
    from apischema import deserialize, serialize
    from apischema.dataclasses import replace
    from apischema.fields import fields_set, set_fields, unset_fields

    mod = build(shape)
    K = mod.K
    obj = orig_obj = None
    flat = {f["name"] for f in shape["fields"] if f["kind"] == "flat"}

    def val(n, x):
        return getattr(mod, "In_" + n)(x) if n in flat else x

    try:
        for op in ops:
            names = list(op["names"])
            if op["op"] == "construct":
                obj = K(**{n: val(n, 1) for n in names})
            elif op["op"] == "construct_pos":
                obj = K(*[val(f["name"], 1) for f in [g for g in shape["fields"] if g["kind"] != "noinit"][:len(names)]])
            elif op["op"] == "deserialize":
                obj = deserialize(K, {n: 1 for n in names})
            elif op["op"] == "setattr":
                setattr(obj, names[0], val(names[0], 2))
            elif op["op"] == "set_fields":
                set_fields(obj, *names)
            elif op["op"] == "set_fields_overwrite":
                set_fields(obj, *names, overwrite=True)
            elif op["op"] == "unset_fields":
                unset_fields(obj, *names)
            elif op["op"] == "replace":
                orig_obj, obj = obj, replace(obj, **{n: val(n, 3) for n in names})
        if shape.get("generic"):      # the parametrised form must behave as the class
            if sorted(serialize(K[int], obj)) != sorted(serialize(K, obj)):
                return {"exc": f"serialize(K[int], obj) keys {sorted(serialize(K[int], obj))} differ from serialize(K, obj) {sorted(serialize(K, obj))}"}
        return {"orig_fs": None if orig_obj is None else sorted(fields_set(orig_obj)),
                "orig_keys_unset": None if orig_obj is None else sorted(serialize(K, orig_obj)),
                "fs": sorted(fields_set(obj)), "keys_unset": sorted(serialize(K, obj)),
                "keys_unset_untyped": sorted(serialize(obj)),
                "keys_all": sorted(serialize(K, obj, exclude_unset=False))}
    except Exception as exc:
        return {"exc": type(exc).__name__ + ": " + str(exc)[:200]}


def verdict(case: dict, out: dict) -> str:
    if "exc" in out:
        return "escape"
    fs, lo = set(case["fs"]), set(case["lo"])
    got = set(out["fs"])
    if case["exact"]:
        if got != fs:
            return "fields_set"
        if set(out["keys_unset"]) != set(case["keys_unset"]) or set(out["keys_unset_untyped"]) != set(case["keys_unset"]):
            return "exclude_unset"
    else:
        if not (lo <= got <= fs):
            return "fields_set"
        if set(out["keys_unset"]) != got & set(case["keys_all"]):
            return "exclude_unset"
    # the instance replace() was called on keeps the set it had, whatever was done to the copy afterwards
    if case.get("orig", {}).get("has") and out.get("orig_fs") is not None:
        ofs, olo = set(case["orig"]["fs"]), set(case["orig"]["lo"])
        og = set(out["orig_fs"])
        if (og != ofs) if case["exact"] else not (olo <= og <= ofs):
            return "original-after-replace"
        if case["exact"] and set(out["orig_keys_unset"]) != ofs & set(case["keys_all"]):
            return "original-after-replace"
    if set(out["keys_all"]) != set(case["keys_all"]):
        return "exclude_unset_false"
    return "ok"


def parse(prints: List[str]) -> List[dict]:
    seen, out = set(), []
    for p in prints:
        if p.startswith('"') and p not in seen:
            seen.add(p)
            out.append(json.loads(json.loads(p)))
    return out


def main() -> int:
    rep = common.Report("C15", "model_checking")
    thorough = common.tier() == "thorough"
    rep.assumptions = ["field values are small ints; aliases are the names (naming is C11's business)",
                       "an undecorated dataclass subclass of a decorated class is a documented-open corner: sandwich"]
    states = trans = replayed = 0
    distinct = set()
    # design laws over every history up to the bound (history hidden)
    r = tlc.run_tlc("MC_FieldsSet", CFG % (3 if thorough else 2, "FALSE", "VIEW View"), workers=16, env={"EMIT": "0"}, timeout_s=3000)
    states += r.distinct
    trans += r.states
    if r.violated:
        rep.violation(f"TLC: {r.violated} violated by the fields-set model", {"trace": r.error_trace[:60]})
    # negative check: a replace() that hands the original's set object to the copy must violate OrigFrozen
    rn = tlc.run_tlc("MC_FieldsSet", CFG % (2, "TRUE", "VIEW View"), workers=16, env={"EMIT": "0"}, timeout_s=3000)
    states += rn.distinct
    rep.set("negative_checks", {"shareonreplace": bool(rn.violated)})
    if not rn.violated:
        rep.violation("negative check: the deviation ShareOnReplace does not violate OrigFrozen (vacuous law)", {})
    # every operation sequence (construction + up to N operations), replayed step by step
    r = tlc.run_tlc("MC_FieldsSet", CFG % (2 if thorough else 1, "FALSE", ""), workers=16, env={"EMIT": "1"}, timeout_s=3000)
    states += r.distinct
    trans += r.states
    cases = parse(r.prints)
    # plus long random sequences
    r2 = tlc.run_tlc("MC_FieldsSet", CFG % (8, "FALSE", ""), workers=4, env={"EMIT": "1"},
                     simulate=f"num={3000 if thorough else 600}", depth=10, seed=common.seed() + 5, timeout_s=3000)
    cases += parse(r2.prints)
    for c in cases:
        out = run_ops(c["shape"], c["ops"])
        vd = verdict(c, out)
        replayed += 1
        distinct.add(json.dumps([c["shape"]["id"], c["ops"]]))
        if vd != "ok":
            rep.violation(f"[{vd}] shape {c['shape']['id']} ops {[(o['op'], sorted(o['names'])) for o in c['ops']]}: "
                          f"expected fs={sorted(c['fs'])} (lo={sorted(c['lo'])}) keys={sorted(c['keys_unset'])}, got {out}",
                          {"shape": c["shape"], "ops": c["ops"], "expected": {k: c[k] for k in ("fs", "lo", "keys_unset", "keys_all", "exact")},
                           "actual": out, "source": class_source(c["shape"])})
        elif replayed % 2001 == 1:
            rep.sample({"shape": c["shape"]["id"], "ops": c["ops"], "expected_fs": c["fs"], "actual": out})
    rep.set("states", states)
    rep.set("transitions", trans)
    rep.set("traces_validated_against_impl", replayed)
    rep.set("evaluations", replayed)
    rep.set("distinct_nontrivial", len(distinct))
    rep.set("rule", "distinct (class shape, operation sequence) histories; the abstract state is compared after the last step of every prefix (every prefix is itself an emitted history)")
    rep.set("exhaustive", True)
    return rep.finish()


def replay(path: str) -> int:
    with open(path) as fh:
        blob = json.load(fh)
    c = blob["case"]
    print(c["source"])
    print("ops:", c["ops"])
    print("expected:", c["expected"])
    print("actual now:", run_ops(c["shape"], c["ops"]))
    return 1
