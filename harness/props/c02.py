from harness import common, engine_deser


def main() -> int:
    rep = common.Report("C02", "model_checking")
    rep.assumptions = ["the reference semantics (spec/DataModel.tla) is my reading of the documented data model",
                       "regex matching and int()/float() parsing are Python's own, carried as string attributes",
                       "bounded universe (spec/Universe.tla) + seeded random deep types beyond it"]
    engine_deser.run("C02", rep, exotic=False)
    return rep.finish()


def replay(path: str) -> int:
    from harness import replay_one

    return replay_one.replay("C02", path)
