"""C12 -- conversions compose (spec/Conversions.tla, spec/mc/MC_Conv.tla)."""
from __future__ import annotations

import dataclasses
import json
import multiprocessing
import sys
import types
import typing
from typing import Any, Dict, List, Optional, Tuple

from harness import common, tlc

CFG = """CONSTANT Tier = "%s"
CONSTANT Dir = "%s"
CONSTANT Deviations = %s
SPECIFICATION Spec
%s
"""
LAWS = {"d": ["RejectsAsSource", "IdentityBypasses", "DynamicIsLocalD", "ContainersReachD"],
        "s": ["SerializersInherited", "DynamicIsLocalS", "ContainersReachS", "IdentityBypassesS"]}
# deviation -> (direction, law it must break)
NEGATIVE = {"catchwide": ("d", "RejectsAsSource"), "nonlocal": ("d", "DynamicIsLocalD"),
            "inhtruthy": ("s", "SerializersInherited"), "lazyfuncnotinh": ("s", "SerializersInherited")}

SRC = '''
from dataclasses import dataclass, field
from typing import List, NamedTuple
from apischema.metadata import conversion


class K1:
    def __init__(self, by, v):
        self.by, self.v = by, v

    def __eq__(self, other):
        return type(self) is type(other) and (self.by, self.v) == (other.by, other.v)

    def __hash__(self):
        return hash((type(self).__name__, self.by))

    def __repr__(self):
        return f"{type(self).__name__}({self.by!r}, {self.v!r})"


class K2(K1):
    pass


class K4(K2):
    pass


class K3:
    __init__, __eq__, __hash__, __repr__ = K1.__init__, K1.__eq__, K1.__hash__, K1.__repr__


@dataclass
class W:
    w: int


class N(NamedTuple):
    x: K1
'''


def cfg_text(tier: str, direction: str, devs: str = "{}") -> str:
    return CFG % (tier, direction, devs, "\n".join("INVARIANT " + l for l in LAWS[direction]))


class Env:
    """The Python incarnation of one environment of the model: fresh classes, converters, registrations."""

    def __init__(self, E: dict):
        from apischema import deserializer, serializer
        from apischema.conversions import Conversion, catch_value_error

        self.E = E
        name = f"verifconv{abs(hash(json.dumps(E, sort_keys=True)))}"
        mod = types.ModuleType(name)
        mod.__file__ = f"<{name}>"
        sys.modules[name] = mod
        exec(compile(SRC, mod.__file__, "exec"), mod.__dict__)
        self.mod = mod
        self.funcs: Dict[str, Any] = {}
        hf = E["ct"]["H"]["fields"]
        xmeta = {}
        if hf[0]["dconv"]:
            xmeta = mod.conversion(deserialization=self.conv_tuple(hf[0]["dconv"]))
        if hf[0]["sconv"]:
            xmeta = mod.conversion(serialization=self.conv_tuple(hf[0]["sconv"]))
        mod.H = dataclasses.make_dataclass(
            "H", [("x", mod.K1, dataclasses.field(metadata=xmeta)), ("xs", List[mod.K1])], namespace={"__module__": name})
        h2 = E["ct"]["H2"]["fields"][0]
        mod.H2 = dataclasses.make_dataclass("H2", [("x", mod.K1)], namespace={"__module__": name})   # H2 must exist before flk / fh
        mod.H2 = dataclasses.make_dataclass(
            "H2", [("x", mod.K1, dataclasses.field(metadata=mod.conversion(deserialization=self.conv_tuple(h2["dconv"]))))],
            namespace={"__module__": name})
        self.tableD: Dict[type, tuple] = {}
        self.tableS: Dict[type, Any] = {}
        for cname, convs in E["regD"].items():
            for c in convs:
                f = self.converter(c)
                if E["via"] == "reg":
                    deserializer(f)
                else:
                    self.tableD[getattr(mod, cname)] = self.tableD.get(getattr(mod, cname), ()) + (f,)
        for cname, convs in E["regS"].items():
            for c in convs:
                g, cls = self.converter(c), getattr(mod, cname)
                inh = {"none": None, "true": True, "false": False}[c["inh"]]
                obj = Conversion(g, source=cls, target=self.py_type(c["tgt"]), inherited=inh)
                if E["via"] == "param":
                    self.tableS[cls] = g if c["form"] in ("func", "lazyfunc") else obj
                elif c["form"] == "func":
                    serializer(g)
                elif c["form"] == "obj":
                    serializer(obj)
                elif c["form"] == "lazy":
                    serializer(lazy=lambda obj=obj: obj, source=cls)
                elif c["form"] == "lazyfunc":
                    serializer(lazy=lambda g=g: g, source=cls)
                else:
                    raise tlc.MachineryError("unknown serializer form " + c["form"])

    # -- types
    def py_type(self, T: dict) -> Any:
        k = T["k"]
        if k == "int":
            return int
        if k == "str":
            return str
        if k == "none":
            return type(None)
        if k == "list":
            return List[self.py_type(T["e"])]
        if k == "dict":
            return Dict[str, self.py_type(T["e"])]
        if k == "tuple":
            return Tuple[tuple(self.py_type(e) for e in T["es"])]
        if k == "union":
            return typing.Union[tuple(self.py_type(a) for a in T["alts"])]
        if k == "cls":
            return getattr(self.mod, T["n"])
        if k == "deque":
            return typing.Deque[self.py_type(T["e"])]
        if k == "obj":      # plain object type: a dataclass of the same shape without conversions
            key = json.dumps(T, sort_keys=True)
            if key not in self.funcs:
                self.funcs[key] = dataclasses.make_dataclass(T["n"], [(n, self.py_type(t)) for n, t in T["fields"]])
            return self.funcs[key]
        raise tlc.MachineryError(f"no python type for {T}")

    # -- values
    def dec(self, v: dict) -> Any:
        k = v["k"]
        if k == "int":
            return v["n"]
        if k == "str":
            return v["s"]
        if k == "null":
            return None
        if k in ("arr", "list"):
            return [self.dec(x) for x in v["a"]]
        if k == "tuple":
            return tuple(self.dec(x) for x in v["a"])
        if k == "obj":
            return {key: self.dec(x) for key, x in v["o"]}
        if k == "dict":
            return {self.dec(key): self.dec(x) for key, x in v["o"]}
        if k == "deque":
            import collections

            return collections.deque(self.dec(x) for x in v["a"])
        if k == "opq":
            return getattr(self.mod, v["cls"])(v["by"], self.dec(v["v"]))
        if k == "inst":
            return getattr(self.mod, v["cls"])(**{n: self.dec(x) for n, x in v["f"]})
        raise tlc.MachineryError(f"cannot decode {v}")

    # -- converters
    def converter(self, c: dict):
        from apischema.conversions import catch_value_error

        key = json.dumps([c["id"], c["src"], c["tgt"], c["catch"]], sort_keys=True)
        if key in self.funcs:
            return self.funcs[key]
        cid, mod = c["id"], self.mod
        bad = [self.dec(b) for b in c["bad"]]
        if cid.startswith("f"):
            tgt = getattr(mod, c["tgt"]["n"])

            def f(x):
                if any(type(x) is type(b) and x == b for b in bad):
                    raise ValueError("bad " + cid)
                return tgt(cid, x)
        elif cid in ("ti", "ti3"):
            f = lambda x: x.v  # noqa: E731
        elif cid in ("ts", "ts2"):
            f = lambda x: str(x.v) + ("!" if cid == "ts2" else "")  # noqa: E731
        elif cid == "tl":
            f = lambda x: [x.v, x.v]  # noqa: E731
        elif cid == "tw":
            f = lambda x: mod.W(x.v)  # noqa: E731
        elif cid == "tk3":
            f = lambda x: mod.K3("tk3", x.v)  # noqa: E731
        elif cid == "tlk":
            f = lambda x: [mod.K3("tlk", x.v)]  # noqa: E731
        else:
            raise tlc.MachineryError("unknown converter " + cid)
        f.__name__ = cid
        f.__annotations__ = {"x": self.py_type(c["src"]), "return": self.py_type(c["tgt"])}
        if c["catch"]:
            f = catch_value_error(f)
        self.funcs[key] = f
        return f

    def conv(self, c: dict):
        from apischema import identity
        from apischema.conversions import Conversion

        if c["id"] == "identity":
            if c["src"]["k"] == "tvar":
                return identity
            return Conversion(identity, source=self.py_type(c["src"]), target=self.py_type(c["tgt"]))
        f = self.converter(c)
        if c["sub"]:
            return Conversion(f, sub_conversion=self.conv_tuple(c["sub"]))
        return f

    def conv_tuple(self, cs: List[dict]):
        if not cs:
            return None
        if len(cs) == 1:
            return self.conv(cs[0])
        return tuple(self.conv(c) for c in cs)

    def kwargs(self, direction: str, dyn: List[dict]) -> dict:
        from apischema.conversions.converters import default_deserialization, default_serialization

        kw: dict = {}
        if dyn:
            kw["conversion"] = self.conv_tuple(dyn)
        if self.E["via"] == "param":
            if direction == "d":
                table = self.tableD
                kw["default_conversion"] = lambda tp: table.get(tp) or default_deserialization(tp)
            else:
                table2 = self.tableS
                kw["default_conversion"] = lambda tp: table2.get(tp) or default_serialization(tp)
        return kw


def enc(env: Env, x: Any) -> Any:
    """Canonical comparable form of a real value."""
    mod = env.mod
    if isinstance(x, (mod.K1, mod.K3)):
        return ["opq", type(x).__name__, x.by, enc(env, x.v)]
    if dataclasses.is_dataclass(x) and not isinstance(x, type):
        return ["inst", type(x).__name__, {f.name: enc(env, getattr(x, f.name)) for f in dataclasses.fields(x)}]
    import collections

    if isinstance(x, (list, tuple, collections.deque)):
        return [type(x).__name__, [enc(env, y) for y in x]]
    if isinstance(x, dict):
        return ["dict", {k: enc(env, v) for k, v in x.items()}]
    return [type(x).__name__, x]


def deref(schema: Any, root: dict) -> Any:
    if isinstance(schema, dict):
        if "$ref" in schema:
            return deref(root["$defs"][schema["$ref"].rsplit("/", 1)[1]], root)
        return {k: deref(v, root) for k, v in schema.items() if k != "$defs"}
    if isinstance(schema, list):
        return [deref(v, root) for v in schema]
    return schema


def norm(schema: Any) -> Any:
    """Schemas up to the presentation of unions: nested anyOf flattened, alternatives that are bare
    types merged into one sorted type list, alternatives sorted."""
    if isinstance(schema, list):
        return [norm(x) for x in schema]
    if not isinstance(schema, dict):
        return schema
    out = {k: norm(v) for k, v in schema.items() if k != "$schema"}
    if "type" in out:
        t = out["type"] if isinstance(out["type"], list) else [out["type"]]
        out["type"] = sorted(set(map(str, t)))
    if "anyOf" in out:
        alts: list = []
        for a in out["anyOf"]:
            alts.extend(a["anyOf"] if set(a) == {"anyOf"} else [a])
        bare = [a for a in alts if set(a) == {"type"}]
        rest = [a for a in alts if set(a) != {"type"}]
        if bare:
            rest.append({"type": sorted({t for a in bare for t in a["type"]})})
        rest.sort(key=lambda a: json.dumps(a, sort_keys=True))
        if len(rest) == 1 and set(out) == {"anyOf"}:
            return rest[0]
        out["anyOf"] = rest
    return out


def has_fail(d: Any) -> bool:
    if isinstance(d, dict):
        return d.get("k") == "fail" or any(has_fail(v) for v in d.values())
    if isinstance(d, list):
        return any(has_fail(v) for v in d)
    return False


def replay_cfg(rep: common.Report, env: Env, direction: str, c: dict) -> int:
    import jsonschema
    from apischema import ValidationError, deserialize, serialize
    from apischema.json_schema import deserialization_schema, serialization_schema
    from apischema.visitor import Unsupported

    T, dyn, plain = c["T"], c["dyn"], c["plain"]
    tp = env.py_type(T)
    kw = env.kwargs(direction, dyn)
    label = f"{'deserialize' if direction == 'd' else 'serialize'}({tp}, conversion={[x['id'] for x in dyn]}, " \
            f"registered D={ {k: [x['id'] for x in v] for k, v in env.E['regD'].items() if v} } " \
            f"S={ {k: [(x['id'], x['form'], x['inh']) for x in v] for k, v in env.E['regS'].items() if v} }, via={env.E['via']}, " \
            f"H.x conv={[x['id'] for x in env.E['ct']['H']['fields'][0]['dconv' if direction == 'd' else 'sconv']]})"
    info = {"E": env.E, "T": T, "dyn": dyn, "plain": plain}
    n = 0
    schema_fn = deserialization_schema if direction == "d" else serialization_schema
    # -- support + schema = schema of the plain type
    n += 1
    try:
        schema = schema_fn(tp, **kw)
        supported = True
    except Unsupported:
        supported = False
    except RecursionError:
        rep.violation(f"{label}: schema generation raised RecursionError", info)
        return n
    if supported != (plain["k"] != "unsup"):
        rep.violation(f"{label}: {'supported' if supported else 'Unsupported'} by the code, the model resolves it to {plain}", info)
        return n
    if not supported:
        return n
    try:
        jsonschema.Draft202012Validator.check_schema(schema)
    except jsonschema.SchemaError as err:
        rep.violation(f"{label}: schema not valid against its meta-schema: {err.message[:160]}", dict(info, got=schema))
    recursive = '"rec"' in json.dumps(plain)
    want = None if recursive else schema_fn(env.py_type(plain))
    if want is not None and norm(deref(schema, schema)) != norm(deref(want, want)):
        rep.violation(f"{label}: schema {deref(schema, schema)} is not the schema of the source/target type {deref(want, want)}",
                      dict(info, got=schema, want=want))
    # -- values
    for case in c["cases"]:
        n += 1
        if direction == "d":
            data = env.dec(case["in"])
            exp = case["out"]
            try:
                got = ("ok", enc(env, deserialize(tp, data, **kw)))
            except ValidationError:
                got = ("bad", None)
            except ValueError as exc:
                got = ("raise", str(exc))
            except Exception as exc:
                got = ("crash", f"{type(exc).__name__}: {exc}")
            expv = enc(env, env.dec(exp["v"])) if exp["kind"] == "ok" else None
            if got[0] != exp["kind"] or (exp["kind"] == "ok" and got[1] != expv):
                rep.violation(f"{label} on {data!r}: {got} but the conversions compose to {(exp['kind'], expv)}",
                              dict(info, data=case["in"], got=got, want=exp))
        else:
            if has_fail(case["out"]):
                rep.add("unspecified_union_without_alternative")
                continue
            val = env.dec(case["in"])
            want_d = env.dec(case["out"])
            try:
                got_d = serialize(tp, val, **kw)
            except Exception as exc:
                got_d = f"raised {type(exc).__name__}: {exc}"
            if got_d != want_d or type(got_d) is not type(want_d):
                rep.violation(f"{label} on {val!r}: {got_d!r} but the conversions compose to {want_d!r}",
                              dict(info, value=case["in"], got=repr(got_d), want=case["out"]))
    return n


def _worker(args):
    direction, chunk = args
    sub = common.Report("C12", "model_checking")
    n = 0
    last_key, env = None, None
    for c in chunk:
        key = json.dumps(c["E"], sort_keys=True)
        if key != last_key:
            import apischema.cache

            env, last_key = Env(c["E"]), key
            apischema.cache.reset()
        try:
            n += replay_cfg(sub, env, direction, c)
        except (RecursionError, Exception) as exc:     # the verdict is total: whatever the code raises is a mismatch
            sub.violation(f"{'de' if direction == 'd' else ''}serialization / schema of {c['T']} under conversion "
                          f"{[x['id'] for x in c['dyn']]} raised {type(exc).__name__}: {str(exc)[:200]}",
                          {"E": c["E"], "T": c["T"], "dyn": c["dyn"], "plain": c["plain"]})
        if len(sub.violations) > 15:
            break
    return n, sub.violations, sub.cov.get("unspecified_union_without_alternative", 0)


GENERIC_SRC = '''
from dataclasses import dataclass
from typing import Dict, Generic, List, Optional, TypeVar
from apischema import deserializer, serializer

T = TypeVar("T")


@dataclass
class Animal:
    name: str


@dataclass
class Dog(Animal):
    breed: str = "unknown"


class Base(Generic[T]):
    def __init__(self, item: T):
        self.item = item

    def __eq__(self, other):
        return type(self) is type(other) and self.item == other.item

    @serializer
    def items(self) -> List[T]:
        return [self.item]


class Kennel(Base[Animal]):      # inherits the generic serializer, T := Animal
    pass


class Ints(Base[int]):
    pass


class Mid(Base[T]):              # still generic
    pass


class Strs(Mid[str]):            # two levels
    pass


class Wrapper(Generic[T]):
    def __init__(self, w: T):
        self.w = w

    def __eq__(self, other):
        return type(self) is type(other) and self.w == other.w


@deserializer
def wrap(x: List[T]) -> Wrapper[T]:
    return Wrapper(x[0])
'''


def generic_law(rep: common.Report) -> int:
    """Beyond the model (its conversions are between ground types): a GENERIC conversion g : C[T] -> S[T]; for a class
    that fixes the argument, directly or by inheritance, the property's own equation on the real code:
    serialize(C', v) = serialize(S[A], g(v)), and the schema of C' is the schema of S[A]."""
    import types as _types
    from typing import List

    import apischema.cache
    from apischema import deserialize, serialize
    from apischema.json_schema import deserialization_schema, serialization_schema

    mod = _types.ModuleType("verifconvgen")
    sys.modules["verifconvgen"] = mod
    exec(compile(GENERIC_SRC, "<verifconvgen>", "exec"), mod.__dict__)
    apischema.cache.reset()
    n = 0
    cases = [("Base[Animal]", mod.Base[mod.Animal], mod.Base(mod.Dog("rex", "corgi")), List[mod.Animal]),
             ("Kennel (Base[Animal])", mod.Kennel, mod.Kennel(mod.Dog("rex", "corgi")), List[mod.Animal]),
             ("Ints (Base[int])", mod.Ints, mod.Ints(3), List[int]),
             ("Strs (Mid[str], Mid(Base[T]))", mod.Strs, mod.Strs("s"), List[str]),
             ("Base[int]", mod.Base[int], mod.Base(4), List[int])]
    for label, tp, v, target in cases:
        n += 1
        try:
            got, want = serialize(tp, v), serialize(target, v.items())
            sgot, swant = norm(serialization_schema(tp)), norm(serialization_schema(target))
        except Exception as exc:
            rep.violation(f"generic conversion law: {label} raised {type(exc).__name__}: {exc}", {"type": label})
            continue
        if got != want:
            rep.violation(f"generic conversion law: serialize({label}, v) = {got} but serialize of the converted value under the "
                          f"substituted target gives {want}", {"type": label})
        if sgot != swant:
            rep.violation(f"generic conversion law: serialization_schema({label}) = {sgot} differs from the schema of the substituted "
                          f"target {swant}", {"type": label})
    for label, tp, d, target, want in (("Wrapper[int]", mod.Wrapper[int], [1], List[int], mod.Wrapper(1)),
                                       ("Wrapper[str]", mod.Wrapper[str], ["a"], List[str], mod.Wrapper("a"))):
        n += 1
        try:
            got = deserialize(tp, d)
            sgot, swant = norm(deserialization_schema(tp)), norm(deserialization_schema(target))
        except Exception as exc:
            rep.violation(f"generic conversion law: {label} raised {type(exc).__name__}: {exc}", {"type": label})
            continue
        if got != want or sgot != swant:
            rep.violation(f"generic conversion law: deserialize({label}, {d}) = {got!r} (expected {want!r}); schema {sgot} vs {swant}", {"type": label})
        for bad in (["a"] if target is List[int] else [1]), 3:
            try:
                deserialize(tp, bad)
                rep.violation(f"generic conversion law: deserialize({label}, {bad}) accepted although the substituted source {target} rejects it", {})
            except Exception:
                pass
    return n


PATH_SRC = '''
from dataclasses import dataclass, field
from typing import Dict, List, Optional
from apischema import deserializer, serializer
from apischema.metadata import conversion


class Pay:
    def __init__(self, x: int):
        self.x = x

    def __eq__(self, other):
        return type(other) is Pay and other.x == self.x

    def __repr__(self):
        return f"Pay({self.x})"


@serializer
def pay_to_str(p: Pay) -> str:
    return f"P{p.x}"


@deserializer
def pay_from_str(s: str) -> Pay:
    return Pay(int(s[1:]))


def pay_to_int(p: Pay) -> int:
    return p.x


def pay_from_int(i: int) -> Pay:
    return Pay(i)


@dataclass
class RA:                                     # RA and RB are mutually recursive through a mapping
    bs: Dict[str, "RB"]


@dataclass
class RB:
    p: Pay = field(metadata=conversion(deserialization=pay_from_int, serialization=pay_to_int))   # declared HERE only
    q: Optional[Pay] = None                    # the registered conversion
    a: Optional[RA] = None
'''


def path_independence_law(rep: common.Report) -> int:
    """'Field and sub-conversions apply only where declared': on the real code, for mutually recursive classes one
    of whose fields declares its own conversion, the image of a value does not depend on the PATH by which its class
    is reached -- serialize(C[T], C(v)) = C(serialize(T, v)) for the containers C, in both directions and whatever
    was compiled first."""
    import apischema.cache
    from typing import Dict, List, Optional

    from apischema import deserialize, serialize

    mod = types.ModuleType("verifconvpath")
    sys.modules["verifconvpath"] = mod
    exec(compile(PATH_SRC, "<verifconvpath>", "exec"), mod.__dict__)
    b = mod.RB(mod.Pay(1), mod.Pay(2), mod.RA({}))
    a = mod.RA({"k": b})
    want_b = {"p": 1, "q": "P2", "a": {"bs": {}}}
    want_a = {"bs": {"k": want_b}}
    n = 0
    paths = [("RB", mod.RB, b, want_b), ("RA", mod.RA, a, want_a), ("List[RB]", List[mod.RB], [b], [want_b]),
             ("Dict[str, RB]", Dict[str, mod.RB], {"k": b}, {"k": want_b}), ("List[RA]", List[mod.RA], [a], [want_a]),
             ("Dict[str, RA]", Dict[str, mod.RA], {"x": a}, {"x": want_a}), ("Optional[RA]", Optional[mod.RA], a, want_a),
             ("Pay", mod.Pay, mod.Pay(3), "P3"), ("List[Pay]", List[mod.Pay], [mod.Pay(3)], ["P3"])]
    # every path FIRST (fresh caches), then all of them in sequence on shared caches, in both orders
    for order in [[p] for p in paths] + [paths, paths[::-1]]:
        apischema.cache.reset()
        for label, tp, value, want in order:
            n += 1
            try:
                got = serialize(tp, value)
                back = deserialize(tp, want)
            except Exception as exc:
                rep.violation(f"path independence: {label} raised {type(exc).__name__}: {exc}", {"path": label})
                continue
            if got != want or back != value:
                rep.violation(f"path independence: serialize({label}, v) = {got!r} (expected {want!r}: field-level conversion on RB.p only, "
                              f"registered one elsewhere); deserialize back = {back!r}", {"path": label, "first": order[0][0]})
    apischema.cache.reset()
    return n


def main() -> int:
    rep = common.Report("C12", "model_checking")
    tier = "thorough" if common.tier() == "thorough" else "quick"
    rep.assumptions = ["converters are uninterpreted wrappers (deserializers) / payload projections (serializers) over a pool of three "
                       "opaque classes and two dataclasses; generic (TypeVar) and recursive conversions are not in the pool",
                       "error CONTENT of rejections is not compared here (C02); acceptance, value, escaping ValueError, schemas are",
                       "a union whose only matching alternative is unsupported is left unspecified"]
    for dev, (direction, law) in NEGATIVE.items():
        res = tlc.run_tlc("MC_Conv", cfg_text("quick", direction, '{"%s"}' % dev), workers=16, timeout_s=1800)
        if res.violated != law:
            raise tlc.MachineryError(f"negative check: deviation {dev} should violate {law}, TLC said {res.violated!r}")
        rep.add("negative_checks")
    states = trans = n = 0
    nproc = 12
    for direction in ("d", "s"):
        res = tlc.run_tlc("MC_Conv", cfg_text(tier, direction), workers=16, env={"EMIT": "1"}, timeout_s=3000)
        states += res.distinct
        trans += res.states
        if res.violated:
            rep.violation(f"TLC: {res.violated} violated by the model", {"tlc": res.error_trace[:40]})
            continue
        cases = [json.loads(json.loads(p)) for p in res.prints if p.startswith('"')]
        cases = [c for c in cases if "T" in c]
        if not cases:
            raise tlc.MachineryError("TLC emitted no configuration")
        cases.sort(key=lambda c: json.dumps(c["E"], sort_keys=True))
        rep.add("configurations_replayed", len(cases))
        for c in cases[::max(1, len(cases) // 3)]:
            rep.sample({"dir": direction, "T": c["T"], "dyn": [x["id"] for x in c["dyn"]], "plain": c["plain"], "cases": c["cases"][:2]})
        chunks = [(direction, cases[i * len(cases) // nproc:(i + 1) * len(cases) // nproc]) for i in range(nproc)]
        with multiprocessing.get_context("fork").Pool(nproc) as pool:
            for cnt, viols, unspec in pool.map(_worker, chunks):
                n += cnt
                rep.violations.extend(viols)
                rep.add("unspecified_union_without_alternative", unspec)
    rep.set("generic_conversion_law_cases", generic_law(rep))
    rep.set("path_independence_cases", path_independence_law(rep))
    rep.set("states", states)
    rep.set("transitions", trans)
    rep.set("traces_validated_against_impl", n)
    rep.set("evaluations", n)
    rep.set("distinct_nontrivial", rep.cov.get("configurations_replayed", 0))
    rep.set("rule", "distinct (environment, root type, dynamic conversion) configurations; each with its data / values and both schemas")
    return rep.finish()


def replay(path: str) -> int:
    print(json.dumps(json.load(open(path)), indent=1)[:6000])
    return 1
