"""C16 -- field order is a deterministic function of declaration and order() specs (spec/Ordering.tla)."""
from __future__ import annotations

import json
import sys
import types
from typing import Any, Dict, List, Optional

from harness import common, tlc

CFG = """CONSTANTS N = %d
 NMethods = %d
 WithOverrides = %s
 SeqForm = SEQFORM
 Deviations = {}
SPECIFICATION Spec
INVARIANT RulesOnWellFormed
INVARIANT NoDuplicate
INVARIANT NoLoss
INVARIANT EmitDone
%s
"""

_n = [0]


def ord_expr(o: dict) -> str:
    if o["k"] == "none":
        return ""
    if o["k"] == "val":
        return f"order({o['n']})"
    return f"order({o['k']}={o['x']!r})"


def class_source(case: dict, hier: bool = False, resolver: bool = False, malias: bool = False, annotated: bool = False,
                 initvar: bool = False) -> str:
    """With `hier` (no class-level override), the class is split anyway: the first fields and the FIRST serialized
    method are declared by a base class -- the order of the elements is the same."""
    elts = case["elts"]
    fields = [e for e in elts if not e["method"]]
    methods = [e for e in elts if e["method"]]
    base_ov, sub_ov = case.get("ovs", [[], []])
    split = (len(fields) + 1) // 2 if (base_ov or sub_ov or hier) else len(fields)
    lines = ["from dataclasses import dataclass, field, InitVar", "from typing import Annotated", "from apischema import order, serialized",
             "from apischema.graphql import resolver", ""]

    def ov_deco(ov):
        if not ov:
            return []
        if ov[0][2] == "seq":      # {x1: after x0, x2: after x1} written as the sequence it came from
            return ["@order([" + ", ".join(repr(x) for x in [ov[0][1]["x"]] + [n for n, _, _ in ov]) + "])"]
        return ["@order({" + ", ".join(f"{n!r}: {ord_expr(o)}" for n, o, _ in ov) + "})"]

    def fld(e):
        oe = ord_expr(e["ord"])
        if initvar and len(fields) >= 2 and e is fields[-2]:
            # an InitVar pseudo-field declared BETWEEN regular fields: an element of the deserialization views, at its place
            return f"    {e['name']}: InitVar[int] = field(default=0" + (f", metadata={oe}" if oe else "") + ")"
        if annotated and oe:      # the ordering carried by the annotation instead of the field metadata
            return f"    {e['name']}: Annotated[int, {oe}] = 0"
        return f"    {e['name']}: int = field(default=0" + (f", metadata={oe}" if oe else "") + ")"

    def meth(e):
        oe = ord_expr(e["ord"])
        if resolver:      # a resolver that is ALSO a serialized method: an element of the GraphQL view too
            return [f"    @resolver(serialized=True" + (f", order={oe}" if oe else "") + ")", f"    def {e['name']}(self) -> int:", "        return 1"]
        al = repr(e["name"].upper()) if malias else ""      # an alias different from the python name
        args = ", ".join(x for x in (al, f"order={oe}" if oe else "") if x)
        return [f"    @serialized({args})", f"    def {e['name']}(self) -> int:", "        return 1"]

    if base_ov or sub_ov or hier:
        base_methods = methods[:1] if hier else []
        bbody = [fld(e) for e in fields[:split]]
        for e in base_methods:
            bbody += meth(e)
        lines += ov_deco(base_ov) + ["@dataclass", "class Base:"] + (bbody or ["    pass"])
        lines += [""] + ov_deco(sub_ov) + ["@dataclass", "class K(Base):"]
        body = [fld(e) for e in fields[split:]]
        for e in methods[len(base_methods):]:
            body += meth(e)
        lines += body or ["    pass"]
    else:
        lines += ["@dataclass", "class K:"] + [fld(e) for e in fields]
        for e in methods:
            lines += meth(e)
        if not elts:
            lines.append("    pass")
    lines += ["", "def get_k() -> K:", "    return K()"]
    return "\n".join(lines) + "\n"


def views(case: dict, hier: bool = False, resolver: bool = False, malias: bool = False, annotated: bool = False,
          initvar: bool = False) -> Dict[str, Any]:
    """The four views of the order in the real code."""
    import apischema.cache
    from apischema import serialize
    from apischema.graphql import graphql_schema
    from apischema.json_schema import deserialization_schema, serialization_schema

    _n[0] += 1
    name = f"veriford_{_n[0]}"
    mod = types.ModuleType(name)
    sys.modules[name] = mod
    out: Dict[str, Any] = {}
    try:
        exec(compile(class_source(case, hier, resolver, malias, annotated, initvar), f"<{name}>", "exec"), mod.__dict__)
        K = mod.K
        if initvar:      # the InitVar is no element of the output views: only the deserialization schema is observed
            try:
                return {"deserialization_schema": list(deserialization_schema(K).get("properties", {}))}
            except Exception as exc:
                return {"deserialization_schema": "error:" + type(exc).__name__}
        for view, fn in (("serialize", lambda: list(serialize(K, K()))),
                         ("serialization_schema", lambda: list(serialization_schema(K).get("properties", {}))),
                         ("deserialization_schema", lambda: list(deserialization_schema(K).get("properties", {})))):
            try:
                out[view] = fn()
            except Exception as exc:
                out[view] = "error:" + type(exc).__name__

        try:
            schema = graphql_schema(query=[mod.get_k])
            out["graphql"] = list(schema.type_map["K"].fields)
        except Exception as exc:
            out["graphql"] = "error:" + type(exc).__name__
    finally:
        sys.modules.pop(name, None)
    if malias:     # back to the python names the ordering specification speaks of
        back = {e["name"].upper(): e["name"] for e in case["elts"] if e["method"]}
        out = {v: ([back.get(k, k) for k in ks] if isinstance(ks, list) else ks) for v, ks in out.items()}
    return out


def main() -> int:
    rep = common.Report("C16", "model_checking")
    thorough = common.tier() == "thorough"
    rep.assumptions = ["elements are int fields with defaults and int-returning serialized methods; names are single letters "
                       "(aliasers leave them unchanged)",
                       "ill-formed specifications (dangling / cyclic after-before) are outside 'well-formed'; losing elements "
                       "there is the listed known finding"]
    states = trans = n = 0
    distinct = set()
    configs = [(3, 1, False), (3, 1, True), (3, 2, False)] + ([(4, 1, False), (4, 2, False), (4, 1, True)] if thorough else [(4, 0, False)])
    import random

    rng = random.Random(common.seed())
    for N, NM, ov in configs:
        r = tlc.run_tlc("MC_Order", (CFG % (N, NM, "TRUE" if ov else "FALSE", "")).replace("SEQFORM", "TRUE" if ov else "FALSE"),
                        workers=16, env={"EMIT": "1"}, timeout_s=3000)
        states += r.distinct
        trans += r.states
        if r.violated:
            rep.violation(f"TLC: {r.violated} violated by the ordering model (N={N})", {"trace": r.error_trace[:60]})
            continue
        cases = [json.loads(json.loads(p)) for p in r.prints if p.startswith('"')]
        if not thorough and len(cases) > 6000:
            cases = rng.sample(cases, 6000)
        variants = [(c, False, False, False, False, False) for c in cases]
        if NM >= 2 and not ov:       # the same specifications with the elements spread over a base class and the class
            variants += [(c, True, False, False, False, False) for c in cases]
        if NM == 1 and N == 3 and not ov:   # ... and with the method declared as @resolver(serialized=True, order=...)
            variants += [(c, False, True, False, False, False) for c in cases]
            # ... with the method aliased, with the field orderings carried by Annotated[...]
            variants += [(c, False, False, True, False, False) for c in cases] + [(c, False, False, False, True, False) for c in cases]
            # ... with the last but one field declared as an InitVar (deserialization views)
            variants += [(c, False, False, False, False, True) for c in cases]
        for c, hier, as_resolver, malias, annotated, initvar in variants:
            got = views(c, hier, as_resolver, malias, annotated, initvar)
            n += 1
            distinct.add(json.dumps([c["elts"], c.get("ovs")]))
            for view, actual in got.items():
                # serialized methods are not elements of the deserialization schema nor of GraphQL output
                # types (only resolvers are): in those views an ordering that targets a method is dangling
                fields_only = view == "deserialization_schema" or (view == "graphql" and not as_resolver)
                expected = c["order_fields"] if fields_only else c["order"]
                wf = c["wf_fields"] if fields_only else c["wf"]
                if isinstance(actual, str) and actual.startswith("error:"):
                    if wf:
                        rep.violation(f"{view} raised {actual} on a well-formed ordering", {"case": c, "source": class_source(c)})
                    continue
                if actual == expected:
                    if not wf and len(actual) < sum(1 for e in c["elts"] if not (fields_only and e["method"])):
                        rep.violation(f"{view}: elements lost on an ill-formed ordering spec: {actual}",
                                      {"case": c, "view": view, "actual": actual, "source": class_source(c)},
                                      finding_key="F-order-orphans")
                    continue
                rep.violation(f"{view}: order {actual} instead of {expected} (well-formed={wf})",
                              {"case": c, "view": view, "expected": expected, "actual": actual, "hier": hier, "resolver": as_resolver, "initvar": initvar,
                               "source": class_source(c, hier, as_resolver, malias, annotated, initvar)})
            if n % 1501 == 1:
                rep.sample({"elts": c["elts"], "ovs": c.get("ovs"), "expected": c["order"], "views": got})
    # negative model check: the transcription of sort_by_order loses orphans / cycles
    r = tlc.run_tlc("MC_Order", (CFG % (3, 1, "FALSE", "INVARIANT NoLossEvenIllFormed")).replace("SEQFORM", "FALSE"), workers=8, env={"EMIT": "0"}, timeout_s=3000)
    rep.set("negative_check_orphans_dropped", r.violated or "NOT VIOLATED")
    if r.violated != "NoLossEvenIllFormed":
        raise tlc.MachineryError("negative model check: sort_by_order no longer loses orphans in the model")
    rep.set("states", states)
    rep.set("transitions", trans)
    rep.set("traces_validated_against_impl", n)
    rep.set("evaluations", n * 4)
    rep.set("distinct_nontrivial", len(distinct))
    rep.set("rule", "distinct ordering specifications (elements x order value / after / before x class-level overrides), each observed in 4 views")
    rep.set("exhaustive", True)
    return rep.finish()


def replay(path: str) -> int:
    blob = json.load(open(path))
    c = blob["case"]["case"]
    print(class_source(c))
    print("expected:", c["order"], "fields only:", c["order_fields"])
    print("views now:", views(c))
    return 1
