"""C19 -- GraphQL schema mirrors the data model and executes like (de)serialize (spec/GraphQL.tla)."""
from __future__ import annotations

import json
import linecache
import sys
import types
from typing import Any, Dict, List, Optional

from harness import common, tlc

CFG = """CONSTANT Tier = "quick"
CONSTANT Deviations = %s
CONSTANT IdEnc = %s
SPECIFICATION Spec
INVARIANT ArgLaw
INVARIANT ArgSound
INVARIANT InterfacesLaw
INVARIANT NullabilityLaw
INVARIANT IdRoundTrip
INVARIANT ResLaw
"""
NEGATIVE = {"nullskips": "ArgLaw", "directbases": "InterfacesLaw", "enumdefault": "ArgLaw", "ehcatchesargs": "ArgLaw",
            "infobreak": "ArgLaw", "idliteralraw": "ArgLaw", "asyncunhandled": "ResLaw"}
FINDING = "F-gql-enum-default"
# classes of the model that are parametrisations of the generic class Box of the module header
GENERICS = {"IntBox": "Box[int]", "StrBox": "Box[str]"}

HEAD = '''
from dataclasses import dataclass, field
from enum import Enum
from typing import Annotated, Generic, List, Literal, NewType, Optional, TypeVar, Union
from apischema import Undefined, UndefinedType, alias, schema, type_name
from apischema.graphql import ID, interface, resolver
from apischema.metadata import flatten, required


class Color(Enum):
    RED = "r"
    GREEN = "g"
    CRIMSON = "r"      # an alias member: a second name of RED


class Unser:
    def __repr__(self):
        return "UNSER"


UNSER = Unser()
T = TypeVar("T")


@type_name(lambda cls, *args: (args[0].__name__.capitalize() if args else "") + "Box")
@dataclass
class Box(Generic[T]):
    item: T

    @resolver
    def first(self) -> T:
        return self.item

    @resolver
    def has(self, item: T) -> bool:
        return item == self.item


Score = NewType("Score", int)
Uid = NewType("Uid", str)      # listed in id_types: a GraphQL ID
CInt = Annotated[int, schema(min=0)]
Lit = Annotated[Literal["x", "y"], type_name("Lit")]
'''


def type_expr(T: dict) -> str:
    k = T["k"]
    if k in ("int", "str", "bool"):
        return k
    if k == "cint":
        return "CInt"
    if k == "id":
        return "ID"
    if k == "score":
        return "Score"
    if k == "uid":
        return "Uid"
    if k == "lit":
        return "Lit"
    if k == "enum":
        return T["n"]
    if k == "obj":
        return GENERICS.get(T["n"], T["n"])
    if k == "uni":
        return "Union[" + ", ".join(T["ns"]) + "]"
    if k == "list":
        return f"List[{type_expr(T['e'])}]"
    if k == "opt":
        return f"Optional[{type_expr(T['e'])}]"
    if k == "und":
        return f"Union[{type_expr(T['e'])}, UndefinedType]"
    raise tlc.MachineryError(f"no type expression for {T}")


def value_expr(v: dict) -> str:
    k = v["k"]
    if k == "int":
        return str(v["n"])
    if k == "str":
        return repr(v["s"])
    if k == "bool":
        return repr(v["b"])
    if k == "null":
        return "None"
    if k == "undef":
        return "Undefined"
    if k == "unser":
        return "UNSER"
    if k == "enum":
        return f"{v['cls']}.{v['m']}"
    if k == "list":
        return "[" + ", ".join(value_expr(x) for x in v["a"]) + "]"
    if k == "inst":
        return f"{'Box' if v['cls'] in GENERICS else v['cls']}(" + ", ".join(f"{n}={value_expr(x)}" for n, x in v["f"]) + ")"
    raise tlc.MachineryError(f"no value expression for {v}")


def default_expr(d: dict, in_class: bool) -> Optional[str]:
    k = d["k"]
    if k == "req":
        return None
    if k == "null":
        return "None"
    if k == "undef":
        return "Undefined"
    if k == "unser":
        return "UNSER"
    e = value_expr(d["v"])
    if in_class and d["v"]["k"] in ("list", "inst"):
        return f"@factory:{e}"
    return e


def class_order(ct: dict) -> List[str]:
    done: List[str] = []

    def deps(n):
        out = list(ct[n]["bases"])
        for f in ct[n]["fields"]:
            t = f["t"]
            while t["k"] in ("list", "opt", "und"):
                t = t["e"]
            if t["k"] == "obj":
                out.append(t["n"])
            if t["k"] == "uni":
                out += t["ns"]
        for r in ct[n]["resolvers"]:     # return types are evaluated when the class body runs
            t = r["ret"]
            while t["k"] in ("list", "opt", "und"):
                t = t["e"]
            if t["k"] == "obj" and t["n"] not in GENERICS:
                out.append(t["n"])
        return out

    def visit(n):
        if n in done:
            return
        for d in deps(n):
            visit(d)
        done.append(n)

    for n in sorted(ct):
        visit(n)
    return done


def module_source(model: dict) -> str:
    ct = model["ct"]
    src = [HEAD]
    for n in class_order(ct):
        c = ct[n]
        if n in GENERICS:
            continue
        if c["kind"] == "interface":
            src.append("@interface")
        src.append("@dataclass")
        src.append(f"class {n}({', '.join(c['bases'])}):" if c["bases"] else f"class {n}:")
        for f in c["fields"]:
            md = []
            if f["alias"]:
                md.append(f"alias({f['alias']!r})")
            if f["flat"]:
                md.append("flatten")
            if f["def"]["k"] == "reqval":
                md.append("required")
            args = []
            d = default_expr(f["def"], True)
            if d is not None:
                args.append(f"default_factory=lambda: {d[9:]}" if d.startswith("@factory:") else f"default={d}")
            if md:
                args.append("metadata=" + " | ".join(md))
            src.append(f"    {f['name']}: {type_expr(f['t'])}" + (f" = field({', '.join(args)})" if args else ""))
        for r in c["resolvers"]:
            ps = ", ".join(f"{p['name']}: {type_expr(p['t'])}" + (f" = {default_expr(p['def'], False)}" if p["def"]["k"] != "req" else "")
                           for p in r["params"])
            src.append("    @resolver")
            src.append(f"    def {r['name']}(self, {ps}) -> {type_expr(r['ret'])}:")
            src.append(f"        return {r['src']}")
        src.append("")
    return "\n".join(src)


def load_module(model: dict):
    name = "verifgql"
    mod = types.ModuleType(name)
    mod.__file__ = f"<{name}>"
    sys.modules[name] = mod
    src = module_source(model)
    linecache.cache[mod.__file__] = (len(src), None, src.splitlines(True), mod.__file__)
    exec(compile(src, mod.__file__, "exec"), mod.__dict__)
    mod.__source__ = src
    return mod


def id_encode(s: str) -> str:
    return "i:" + s


def id_decode(s: str) -> str:
    """Inverse of id_encode; raises on anything that is not an encoded identifier (GraphQL!IdDecode)."""
    if not isinstance(s, str) or not s.startswith("i:"):
        raise ValueError(f"not an encoded ID: {s!r}")
    return s[2:]


class Setting:
    def __init__(self, label: str, aliaser, enum_aliaser, idenc: bool = False):
        self.label, self.aliaser, self.enum_aliaser, self.idenc = label, aliaser, enum_aliaser, idenc

    def kwargs(self) -> dict:
        kw = {}
        if self.label == "custom":
            kw = {"aliaser": self.aliaser, "enum_aliaser": self.enum_aliaser}
        if self.idenc:
            kw["id_encoding"] = (id_decode, id_encode)
        return kw


def settings() -> List[Setting]:
    from apischema.utils import to_camel_case

    return [Setting("default", to_camel_case, str.upper),
            Setting("custom", lambda s: "x_" + s, lambda s: s.lower() + "_e"),
            Setting("ids", to_camel_case, str.upper, idenc=True)]


class World:
    def __init__(self, model: dict, mod, st: Setting):
        self.model, self.mod, self.st = model, mod, st
        self.ct = model["ct"]

    def all_fields(self, n: str) -> List[dict]:
        c = self.ct[n]
        return (self.all_fields(c["bases"][0]) if c["bases"] else []) + c["fields"]

    def descendants(self, n: str) -> List[str]:
        out = []
        for m, c in self.ct.items():
            x = m
            while self.ct[x]["bases"]:
                x = self.ct[x]["bases"][0]
                if x == n:
                    out.append(m)
                    break
        return sorted(out)

    def all_resolvers(self, n: str) -> List[dict]:
        c = self.ct[n]
        return (self.all_resolvers(c["bases"][0]) if c["bases"] else []) + c["resolvers"]

    def fname(self, f: dict) -> str:
        return self.st.aliaser(f["alias"] or f["name"])

    # -- selections
    def sel_fields(self, n: str, skip: set) -> List[str]:
        out = []
        for f in self.all_fields(n):
            if f["flat"]:
                out += self.sel_fields(f["t"]["n"], skip)
            elif self.fname(f) not in skip:
                out.append(self.fname(f) + self.sel(f["t"]))
        for r in self.all_resolvers(n):      # resolvers are fields too (those selectable without argument)
            if r["sel"] and self.st.aliaser(r["name"]) not in skip:
                out.append(self.st.aliaser(r["name"]) + self.sel(r["ret"]))
        return out

    def sel(self, T: dict) -> str:
        k = T["k"]
        if k in ("list", "opt", "und"):
            return self.sel(T["e"])
        if k == "obj":
            own = self.sel_fields(T["n"], set())
            names = {s.split(" ")[0].split("{")[0] for s in own}
            frags = [f"... on {d} {{ {' '.join(self.sel_fields(d, names)) or '__typename'} }}"
                     for d in self.descendants(T["n"]) if self.ct[d]["kind"] == "object"]  # hidden classes are not in the schema
            return " { " + " ".join(own + frags) + " }"
        if k == "uni":
            return " { " + " ".join(f"... on {n} {{ {' '.join(self.sel_fields(n, set()))} }}" for n in T["ns"]) + " }"
        return ""

    # -- expected data / literals
    def data(self, d: dict) -> Any:
        k = d["k"]
        if k == "int":
            return d["n"]
        if k == "str":
            return d["s"]
        if k == "bool":
            return d["b"]
        if k == "null":
            return None
        if k == "ename":
            return self.st.enum_aliaser(d["m"])
        if k == "arr":
            return [self.data(x) for x in d["a"]]
        if k == "obj":
            return {self.st.aliaser(key): self.data(x) for key, x in d["o"]}
        raise tlc.MachineryError(f"cannot decode datum {d}")

    def literal(self, d: dict) -> str:
        k = d["k"]
        if k == "ename":
            return self.st.enum_aliaser(d["m"])
        if k == "arr":
            return "[" + ", ".join(self.literal(x) for x in d["a"]) + "]"
        if k == "obj":
            return "{" + ", ".join(f"{self.st.aliaser(key)}: {self.literal(x)}" for key, x in d["o"]) + "}"
        return json.dumps(self.data(d))

    def value(self, v: dict) -> Any:
        return eval(value_expr(v), self.mod.__dict__)


def run_setting(rep: common.Report, model: dict, cases: List[dict], st: Setting) -> int:
    import graphql
    from apischema.graphql import Query, graphql_schema

    mod = load_module(model)
    w = World(model, mod, st)
    n = 0
    info0 = {"setting": st.label, "source": mod.__source__}
    roots = [c for c in cases if c["kind"] == "root"]
    params = [c for c in cases if c["kind"] == "param"]
    typemap = next(c for c in cases if c["kind"] == "types")["typemap"]
    box: Dict[str, Any] = {}
    ops = []
    for i, c in enumerate(roots):
        def op():
            return box["value"]
        op.__name__ = f"root_{i}"
        op.__annotations__ = {"return": eval(type_expr(c["t"]), mod.__dict__)}
        ops.append(op)
    for i, c in enumerate(params):
        p = c["p"]
        ns = dict(mod.__dict__, box=box)
        dflt = default_expr(p["def"], False)
        info_prm = "info: graphql.GraphQLResolveInfo, " if p.get("pos") == "afterinfo" else ""
        ns["graphql"] = graphql
        exec(f"def param_{i}({info_prm}{p['name']}: {type_expr(p['t'])}" + (f" = {dflt}" if dflt is not None else "") + ") -> bool:\n"
             f"    box['received'] = {p['name']}\n    return True\n", ns)
        c["_default"] = eval(dflt, ns) if dflt is not None else None
        if p.get("eh", "unset") == "none":
            ops.append(Query(ns[f"param_{i}"], error_handler=None))
        elif p.get("eh") == "custom":
            def handler(error: Exception, obj, info, **kwargs) -> None:
                box["handled"] = repr(error)
                return None
            ops.append(Query(ns[f"param_{i}"], error_handler=handler))
        else:
            ops.append(ns[f"param_{i}"])
    # ---- resolver outcomes: generated operations that return or raise, under every error_handler
    outcomes = [c for c in cases if c["kind"] == "res"]
    for i, c in enumerate(outcomes):
        r = c["r"]
        ns = dict(mod.__dict__, box=box)
        body = f"    return {value_expr(r['v'])}\n" if r["out"] == "ok" else "    raise RuntimeError('resolver failed')\n"
        exec(("async " if r["mode"] == "async" else "") + f"def res_{i}() -> {type_expr(r['t'])}:\n    box['res_called'] = True\n" + body, ns)
        exec(("async " if r["hmode"] == "async" else "") + "def handler_(error: Exception, obj, info, **kwargs) -> int:\n"
             "    box['handled'] = type(error).__name__\n    return -1\n", ns)
        if r["eh"] == "unset":
            ops.append(ns[f"res_{i}"])
        elif r["eh"] == "none":
            ops.append(Query(ns[f"res_{i}"], error_handler=None))
        else:
            ops.append(Query(ns[f"res_{i}"], error_handler=ns["handler_"]))
    classes = [getattr(mod, name) for name, c in model["ct"].items() if c["kind"] != "hidden" and name not in GENERICS]
    try:
        schema = graphql_schema(query=ops, types=classes, id_types=[mod.Uid], **st.kwargs())
    except Exception as exc:
        rep.violation(f"graphql_schema raised {type(exc).__name__}: {exc} [{st.label}]", info0)
        return 1
    errs = graphql.validate_schema(schema)
    n += 1
    if errs:
        rep.violation(f"graphql.validate_schema: {[str(e) for e in errs][:3]} [{st.label}]", info0)
    # ---- type map
    for cname, exp in typemap.items():
        if exp["kind"] == "hidden":
            if cname in schema.type_map:
                rep.violation(f"class {cname} was not given to graphql_schema and is not reachable, yet it is in the type map [{st.label}]", info0)
            continue
        n += 1
        t = schema.type_map.get(cname)
        info = dict(info0, cls=cname, expected=exp)
        want_kind = graphql.GraphQLInterfaceType if exp["kind"] == "interface" else graphql.GraphQLObjectType
        if cname in ("LeafIn", "EnumIn", "SubIn", "IdIn"):
            t_in = schema.type_map.get(cname + "Input")
            if not isinstance(t_in, graphql.GraphQLInputObjectType):
                rep.violation(f"input type {cname}Input missing from the type map [{st.label}]", info)
                continue
            got = {k: {"type": str(f.type), "hasDefault": f.default_value is not graphql.Undefined} for k, f in t_in.fields.items()}
            want = {st.aliaser(k): v for k, v in exp["inp"]}
            if got != want:
                rep.violation(f"input type {cname}Input: fields {got} but the model maps them to {want} [{st.label}]", info)
            continue
        if not isinstance(t, want_kind):
            rep.violation(f"type {cname}: {type(t).__name__} in the type map, the model says {exp['kind']} [{st.label}]", info)
            continue
        got_f = {k: str(f.type) for k, f in t.fields.items()}
        want_f = {st.aliaser(k): v for k, v in exp["out"]}
        if got_f != want_f:
            rep.violation(f"type {cname}: fields {got_f} but the model maps them to {want_f} [{st.label}]", info)
        if sorted(i.name for i in t.interfaces) != sorted(exp["interfaces"]):
            rep.violation(f"type {cname}: implements {sorted(i.name for i in t.interfaces)} but its @interface ancestors are "
                          f"{sorted(exp['interfaces'])} [{st.label}]", info)
        for r in exp["resolvers"]:
            fld = t.fields.get(st.aliaser(r["name"]))
            got_a = {k: {"type": str(a.type), "hasDefault": a.default_value is not graphql.Undefined} for k, a in (fld.args if fld else {}).items()}
            want_a = {st.aliaser(k): v for k, v in r["args"]}
            if got_a != want_a:
                rep.violation(f"resolver {cname}.{r['name']}: arguments {got_a} but the model says {want_a} [{st.label}]", info)
    enum_t = schema.type_map.get("Color")
    n += 1
    want_e = {st.enum_aliaser(k): getattr(mod.Color, k) for k in ("RED", "GREEN", "CRIMSON")}
    if not isinstance(enum_t, graphql.GraphQLEnumType) or {k: v.value for k, v in enum_t.values.items()} != want_e:
        rep.violation(f"enum Color: {enum_t and {k: v.value for k, v in enum_t.values.items()}} but its members are {want_e} [{st.label}]", info0)
    # ---- roots: types and execution
    for i, c in enumerate(roots):
        fld = schema.query_type.fields[st.aliaser(f"root_{i}")]
        n += 1
        if str(fld.type) != c["gtype"]:
            rep.violation(f"operation returning {type_expr(c['t'])}: GraphQL type {fld.type} but the model maps it to {c['gtype']} [{st.label}]",
                          dict(info0, t=c["t"]))
        for case in c["cases"]:
            n += 1
            box["value"] = w.value(case["in"])
            query = "{ " + st.aliaser(f"root_{i}") + w.sel(c["t"]) + " }"
            res = graphql.graphql_sync(schema, query)
            want = {st.aliaser(f"root_{i}"): w.data(case["out"])}
            if res.errors or res.data != want:
                rep.violation(f"executing {query} on {value_expr(case['in'])}: {res.data} {[str(e) for e in res.errors or []][:2]} "
                              f"but selecting every field must give {want} [{st.label}]",
                              dict(info0, t=c["t"], value=case["in"], query=query, got=res.data, want=want))
    # ---- resolver outcomes
    import asyncio

    for i, c in enumerate(outcomes):
        r = c["r"]
        name = st.aliaser(f"res_{i}")
        fld = schema.query_type.fields[name]
        n += 1
        info = dict(info0, r=r, expected=c["out"])
        what = (f"{r['mode']} operation -> {type_expr(r['t'])} that {'returns ' + value_expr(r['v']) if r['out'] == 'ok' else 'raises'}, "
                f"error_handler {r['eh']}" + (f" ({r['hmode']})" if r["eh"] == "custom" else ""))
        if str(fld.type) != c["gtype"]:
            rep.violation(f"{what}: GraphQL type {fld.type} but the model maps it to {c['gtype']} [{st.label}]", info)
        box.pop("handled", None)
        if r["mode"] == "async" or (r["eh"] == "custom" and r["hmode"] == "async"):
            res = asyncio.run(graphql.graphql(schema, "{ " + name + " }"))
        else:
            res = graphql.graphql_sync(schema, "{ " + name + " }")
        info["errors"] = [str(e) for e in res.errors or []]
        if c["out"]["kind"] == "error":
            if not res.errors:
                rep.violation(f"{what}: executed without error ({res.data}), the error must reach the client [{st.label}]", info)
        elif res.errors or res.data != {name: w.data(c["out"]["v"])}:
            rep.violation(f"{what}: data {res.data} errors {info['errors'][:1]}, the model gives {{{name!r}: {w.data(c['out']['v'])!r}}} [{st.label}]", info)
        if r["out"] == "raise" and r["eh"] == "custom" and box.get("handled") != "RuntimeError":
            rep.violation(f"{what}: the error handler was not invoked with the resolver's exception [{st.label}]", info)
    # ---- parameters
    for i, c in enumerate(params):
        p = c["p"]
        name = st.aliaser(f"param_{i}")
        fld = schema.query_type.fields[name]
        arg = fld.args.get(st.aliaser(p["name"]))
        n += 1
        got_a = arg and {"type": str(arg.type), "hasDefault": arg.default_value is not graphql.Undefined}
        if got_a != c["arg"]:
            rep.violation(f"argument {type_expr(p['t'])} (default {p['def']['k']}): {got_a} but the model says {c['arg']} [{st.label}]",
                          dict(info0, p=p))
        for case, ch in [(case, ch) for case in c["cases"] for ch in ("lit", "var")]:
            sup, exp = case["in"], case["out"][ch]
            if ch == "var" and (sup["k"] == "omitted" or arg is None):
                continue          # an omitted argument has no channel
            n += 1
            box.pop("received", None)
            variables = None
            if sup["k"] == "omitted":
                call = query = name
            elif ch == "lit":
                call = query = f"{name}({st.aliaser(p['name'])}: {w.literal(sup['d'])})"
            else:
                call = f"{name}({st.aliaser(p['name'])}: $v)"
                query = f"query($v: {arg.type}) {{ {call} }} with v = {json.dumps(w.data(sup['d']))}"
                variables = {"v": w.data(sup["d"])}
            if variables is None:
                res = graphql.graphql_sync(schema, "{ " + call + " }")
            else:
                res = graphql.graphql_sync(schema, f"query($v: {arg.type}) {{ {call} }}", variable_values=variables)
            called = "received" in box
            info = dict(info0, p=p, supply=sup, channel=ch, expected=exp, query=query, errors=[str(e) for e in res.errors or []])
            what = f"{{ {query} }} (error_handler {p.get('eh', 'unset')}) with parameter {p['name']}: {type_expr(p['t'])}" + \
                   (f" = {default_expr(p['def'], False)}" if p["def"]["k"] != "req" else "")
            if exp["kind"] == "error":
                if called or not res.errors:
                    rep.violation(f"{what}: the resolver was {'invoked with ' + repr(box.get('received')) if called else 'not invoked'}, "
                                  f"errors={info['errors'][:1]}; an invalid argument must yield an error without invoking it [{st.label}]", info)
                continue
            if not called or res.errors:
                rep.violation(f"{what}: resolver not invoked / errors {info['errors'][:1]}, the model expects {exp['kind']} [{st.label}]", info)
                continue
            got = box["received"]
            if exp["kind"] == "default":
                want_v = c["_default"]
            else:
                want_v = w.value(exp["v"])
            if not (got == want_v and type(got) is type(want_v)):
                enum_default = (sup["k"] == "omitted" and "Color" in type_expr(p["t"]) and p["def"]["k"] == "val") or \
                               (p["t"].get("n") == "EnumIn" and sup["k"] == "given" and "col" not in json.dumps(sup["d"]))
                rep.violation(f"{what}: the resolver received {got!r}, deserialize / the Python default give {want_v!r} [{st.label}]",
                              info, finding_key=FINDING if enum_default else None)
    return n


def main() -> int:
    rep = common.Report("C19", "model_checking")
    rep.assumptions = ["one data model (12 classes: objects, interfaces two levels deep and through a concrete class, union, enum, Literal, "
                       "NewType scalar, ID, constrained int, flattened field, resolver with a parameter), two settings of aliaser / enum_aliaser",
                       "id_types (a NewType over str) in every setting, id_encoding in a third setting; every supplied argument through two channels (query literal, variable)",
                       "resolver outcomes (returns / raises) x error_handler x sync / async resolver and handler",
                       "subscriptions, relay helpers, conversions in GraphQL are not modelled",
                       "`x: int = None` (implicit Optional) parameters are outside the pool"]
    for dev, law in NEGATIVE.items():
        res = tlc.run_tlc("MC_Gql", CFG % ('{"%s"}' % dev, "TRUE" if dev == "idliteralraw" else "FALSE"), workers=4, timeout_s=900)
        if res.violated != law:
            raise tlc.MachineryError(f"negative check: deviation {dev} should violate {law}, TLC said {res.violated!r}")
        rep.add("negative_checks")
    n = 0
    states = trans = 0
    all_cases: List[dict] = []
    for idenc in (False, True):
        res = tlc.run_tlc("MC_Gql", CFG % ("{}", "TRUE" if idenc else "FALSE"), workers=4, env={"EMIT": "1"}, timeout_s=900)
        if res.violated:
            rep.violation(f"TLC: {res.violated} violated by the model (IdEnc = {idenc})", {"tlc": res.error_trace[:40]})
        objs = [json.loads(json.loads(p)) for p in res.prints if p.startswith('"')]
        header = next((o for o in objs if o.get("header")), None)
        cases = [o for o in objs if "kind" in o]
        if header is None or not cases:
            raise tlc.MachineryError("TLC emitted no case")
        cases.sort(key=lambda c: json.dumps(c, sort_keys=True))
        states += res.distinct
        trans += res.states
        all_cases += cases
        for st in settings():
            if st.idenc != idenc:
                continue
            import apischema.cache

            apischema.cache.reset()
            n += run_setting(rep, header["model"], cases, st)
    cases = all_cases
    for c in cases[:: max(1, len(cases) // 5)]:
        rep.sample({k: v for k, v in c.items() if k != "typemap"})
    rep.set("states", states)
    rep.set("transitions", trans)
    rep.set("traces_validated_against_impl", n)
    rep.set("evaluations", n)
    rep.set("distinct_nontrivial", len(cases))
    rep.set("rule", "distinct root types / parameter declarations; each with its values / supplied literals, under two aliaser settings")
    return rep.finish()


def replay(path: str) -> int:
    print(json.dumps(json.load(open(path)), indent=1)[:6000])
    return 1
