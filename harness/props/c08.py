"""C08 -- options that are optimizations never change results.

Decided on the same models as C01/C04: the specification has NO notion of no_copy,
override_dataclass_constructors, precomputed methods, check_type or pass-through -- its
predicted outcome is the one every option vector must produce.  Each case TLC enumerates is
replayed under every option vector of its class; the real results are compared with the
prediction and with each other, and container identity is observed for the copy rules."""
from __future__ import annotations

import itertools
import json
from typing import Any, Dict, List

from harness import bridge, common, compare, engine_ser, record, replay_deser, tlc
from harness.engine_deser import MC_CFG as DESER_CFG


def json_eq(a: Any, b: Any) -> bool:
    return json.dumps(a, sort_keys=True) == json.dumps(b, sort_keys=True)


_types_seen: dict = {}


def ser_per_case(u, c, tp, val, kw, out, violate):
    """Serialization side: precomputed method, check_type, no_copy, PassThroughOptions."""
    from apischema import PassThroughOptions, serialization_default, serialization_method, serialize

    thorough = common.tier() == "thorough"
    base = out["d"]
    before = record.fingerprint(val)
    in_ids = record.container_ids(val)
    # precomputed method
    r = engine_ser.run_serialize(serialization_method(tp, **kw), val)
    if r["kind"] != "ok" or not engine_ser.ser_equal(c["expect"], r["d"]):
        violate("opt-method", f"serialization_method(...) gives {json.dumps({k: v for k, v in r.items() if k != 'raw'})[:300]}")
    # check_type on a well-typed value
    r = engine_ser.run_serialize(serialize, tp, val, check_type=True, **kw)
    if r["kind"] != "ok" or not engine_ser.ser_equal(c["expect"], r["d"]):
        violate("opt-check_type", f"check_type=True gives {json.dumps({k: v for k, v in r.items() if k != 'raw'})[:300]}")
    # no_copy: same result; with no_copy=False nothing mutable is shared with the input
    # (crossed with fall_back_on_any, which changes nothing for a value of the declared type)
    for nc, fb in ((False, False), (True, False), (False, True), (True, True)):
        r = engine_ser.run_serialize(serialize, tp, val, no_copy=nc, fall_back_on_any=fb, **kw)
        if r["kind"] != "ok" or not engine_ser.ser_equal(c["expect"], r["d"]):
            violate("opt-no_copy", f"no_copy={nc} fall_back_on_any={fb} gives {json.dumps({k: v for k, v in r.items() if k != 'raw'})[:300]}")
        elif not nc and (in_ids & record.container_ids(r["raw"])):
            violate("opt-shares", f"no_copy=False (fall_back_on_any={fb}) but the result shares a mutable container with the input")
    # PassThroughOptions.types is part of the options a compiled method depends on: a call passing some classes
    # through, then the plain call on a fresh cache -- the second must not inherit the first one's methods
    tkey = json.dumps(c["type"], sort_keys=True)
    _types_seen[tkey] = _types_seen.get(tkey, 0) + 1
    if _types_seen[tkey] <= 2:
        import dataclasses as _dc

        import apischema.cache

        all_dc = tuple(v for v in u.ctx.ns.values() if isinstance(v, type) and _dc.is_dataclass(v))
        if all_dc:
            apischema.cache.reset()
            engine_ser.run_serialize(serialize, tp, val, pass_through=PassThroughOptions(types=all_dc), **kw)
            r = engine_ser.run_serialize(serialize, tp, val, **kw)
            if r["kind"] != "ok" or not engine_ser.ser_equal(c["expect"], r["d"]):
                violate("opt-pass_through", "after a call with pass_through=PassThroughOptions(types=<the dataclasses>), the plain call gives "
                        f"{json.dumps({k: v for k, v in r.items() if k != 'raw'})[:300]}")
    # pass-through: equal once serialization_default completes what was left untouched
    dflt_kw = {k: v for k, v in kw.items() if k in ("aliaser", "additional_properties", "exclude_defaults", "exclude_none")}
    default = serialization_default(**dflt_kw)

    def complete(x: Any) -> Any:
        """What the user's JSON library does with serialization_default as fallback (also applied
        to mapping keys, which json.dumps' `default` hook does not reach)."""
        if x is None or isinstance(x, (bool, int, float, str)) and type(x) in (bool, int, float, str):
            return x
        if isinstance(x, dict):
            return {complete(k) if not isinstance(k, str) else k: complete(v) for k, v in x.items()}
        if isinstance(x, (list, tuple)):
            return [complete(v) for v in x]
        return complete(default(x))

    baseline_json = complete(out["raw"])
    flag_names = ("any", "collections", "dataclasses", "enums", "tuple")
    vectors = list(itertools.product((False, True), repeat=5)) if thorough else \
        [(True,) * 5, (False, True, False, False, False), (False, False, True, False, False),
         (False, False, False, True, False), (True, False, False, False, False), (False, False, False, False, True)]
    for vec in vectors:
        pto = PassThroughOptions(**dict(zip(flag_names, vec)))
        try:
            res = serialize(tp, val, pass_through=pto, **kw)
            completed = complete(res)
        except Exception as exc:
            violate("opt-pass_through", f"PassThroughOptions{dict(zip(flag_names, vec))} raised {type(exc).__name__}: {exc}")
            continue
        if not _pt_equal(completed, baseline_json, c):
            if vec[2] and _only_discriminator_missing(completed, baseline_json, c["type"]):
                violate("opt-pass_through", "discriminator key lost when the dataclass alternative is passed through",
                        finding="F-passthrough-discriminator")
                continue
            if vec[2] and _subclass_passed_through(tp, val, completed, kw, complete):
                violate("opt-pass_through", "an instance of a subclass passed through where its base class is declared: completed by "
                        "serialization_default with the fields of its runtime class", finding="F-passthrough-subclass")
                continue
            violate("opt-pass_through", f"PassThroughOptions{dict(zip(flag_names, vec))} gives {json.dumps(completed)[:200]} "
                                        f"instead of {json.dumps(baseline_json)[:200]}")
    if record.fingerprint(val) != before:
        violate("opt-input-modified", "the serialized value was modified")


def _holds_strict_subclass(tp: Any, val: Any) -> bool:
    """Does `val` hold, at a position declared with a dataclass (directly, in a union, as element of a list / value of
    a dict), an instance of a STRICT subclass of the first declared class it is an instance of?"""
    import dataclasses
    import typing

    origin = typing.get_origin(tp)
    if origin is typing.Annotated:
        return _holds_strict_subclass(typing.get_args(tp)[0], val)
    if origin is typing.Union:
        for alt in typing.get_args(tp):
            base = alt
            while typing.get_origin(base) is typing.Annotated:
                base = typing.get_args(base)[0]
            if isinstance(base, type) and dataclasses.is_dataclass(base) and isinstance(val, base):
                return type(val) is not base
        return False
    if origin in (list, typing.List) and isinstance(val, list):
        return any(_holds_strict_subclass(typing.get_args(tp)[0], x) for x in val)
    if origin in (dict, typing.Dict) and isinstance(val, dict):
        return any(_holds_strict_subclass(typing.get_args(tp)[1], x) for x in val.values())
    if isinstance(tp, type) and dataclasses.is_dataclass(tp) and isinstance(val, tp):
        return type(val) is not tp
    return False


def _subclass_passed_through(tp: Any, val: Any, completed: Any, kw: dict, complete) -> bool:
    """F-passthrough-subclass, exactly: the value holds an instance of a strict subclass of the declared dataclass, and
    what came out (completed) is the serialization of the value BY ITS RUNTIME CLASSES (serialize(Any, value))."""
    from apischema import serialize

    if not _holds_strict_subclass(tp, val):
        return False
    try:
        by_runtime_class = complete(serialize(Any, val, **kw))
    except Exception:
        return False
    return json_eq(completed, by_runtime_class)


def _dunion_aliases(T: Any, acc: set) -> set:
    if isinstance(T, dict):
        if T.get("k") == "dunion":
            acc.add(T["alias"])
            acc.add(T["alias"].upper())
        for v in T.values():
            _dunion_aliases(v, acc)
    elif isinstance(T, list):
        for v in T:
            _dunion_aliases(v, acc)
    return acc


def _strip_keys(x: Any, keys: set) -> Any:
    if isinstance(x, dict):
        return {k: _strip_keys(v, keys) for k, v in x.items() if k not in keys}
    if isinstance(x, list):
        return [_strip_keys(v, keys) for v in x]
    return x


def _only_discriminator_missing(got: Any, want: Any, T: Any) -> bool:
    keys = _dunion_aliases(T, set())
    return bool(keys) and json_eq(got, _strip_keys(want, keys)) and not json_eq(got, want)


def _pt_equal(a: Any, b: Any, c: dict) -> bool:
    """Equality of JSON results where arrays that image sets may be ordered differently."""
    if json_eq(a, b):
        return True
    return json_eq(_sort_arrays(a), _sort_arrays(b)) and _has_set(c["value"])


def _sort_arrays(x: Any) -> Any:
    if isinstance(x, list):
        return sorted((_sort_arrays(y) for y in x), key=lambda y: json.dumps(y, sort_keys=True))
    if isinstance(x, dict):
        return {k: _sort_arrays(v) for k, v in x.items()}
    return x


def _has_any(T: Any, classes: dict, seen: frozenset = frozenset()) -> bool:
    """`Any` positions return the datum itself by definition of the data model: sharing there is
    not a copy-rule violation."""
    if isinstance(T, dict):
        if T.get("k") == "any":
            return True
        if T.get("k") == "obj":
            if T["cls"] in seen:
                return False
            return any(_has_any(f["type"], classes, seen | {T["cls"]}) for f in classes[T["cls"]]["fields"])
        return any(_has_any(v, classes, seen) for v in T.values())
    if isinstance(T, list):
        return any(_has_any(v, classes, seen) for v in T)
    return False


def _has_set(v: Any) -> bool:
    if isinstance(v, dict):
        return v.get("k") in ("set", "fset") or any(_has_set(x) for x in v.values())
    if isinstance(v, list):
        return any(_has_set(x) for x in v)
    return False


def _inject_instances(u: Any, T: dict, data: Any, v: dict, depth: int = 0) -> Any:
    """The datum with every sub-datum whose predicted image is a dataclass INSTANCE replaced by that instance, at the
    positions reached through unions / Optional, lists and mapping values (not inside objects: pass_through is about
    the types named at the call).  Returns (datum, replaced?)."""
    k = T.get("k")
    if k == "annot":
        # constraints apply to JSON data (a discriminated union reads its key in a JSON object): not a pass-through position
        return (data, False) if T.get("cons") else _inject_instances(u, T["t"], data, v, depth)
    if k == "newtype":
        return _inject_instances(u, T["sup"], data, v, depth)
    if v.get("k") == "inst" and k == "obj":
        if u.classes[v["cls"]]["kind"] == "dataclass":
            return u.ctx.dec_value(v), True
        return data, False
    if k == "union":
        for alt in T["alts"]:
            d2, hit = _inject_instances(u, alt, data, v, depth)
            if hit:
                return d2, True
        return data, False
    if k == "coll" and T.get("c") == "list" and v.get("k") == "list" and isinstance(data, list) and len(data) == len(v["a"]):
        outs = [_inject_instances(u, T["e"], x, w, depth + 1) for x, w in zip(data, v["a"])]
        return [o[0] for o in outs], any(o[1] for o in outs)
    if k == "map" and v.get("k") == "dict" and isinstance(data, dict) and len(data) == len(v["o"]) and T["kt"].get("p") == "str":
        vals = {kv[0]["s"]: kv[1] for kv in v["o"] if kv[0].get("k") == "str"}
        if set(vals) != set(data):
            return data, False
        outs = {key: _inject_instances(u, T["vt"], x, vals[key], depth + 1) for key, x in data.items()}
        return {key: o[0] for key, o in outs.items()}, any(o[1] for o in outs.values())
    return data, False


def deser_variants(rep: common.Report, tiers: List[str]) -> int:
    """Deserialization side: no_copy, override_dataclass_constructors, precomputed method,
    pass_through of a type.  Outcomes (values and errors) must all equal the prediction."""
    import apischema.cache
    from apischema import deserialization_method, settings

    n = 0
    for t in tiers:
        res = tlc.run_tlc("MC_Deser", DESER_CFG % t, workers=16, env={"EMIT": "1"}, timeout_s=3000)
        header, cases = replay_deser.parse_emitted(res.prints)
        u = replay_deser.Universe(header, [c["type"] for c in cases])
        keyed = sorted(cases, key=lambda c: json.dumps(c["type"], sort_keys=True))
        for odc in (False, True):
            settings.deserialization.override_dataclass_constructors = odc
            last = None
            for c in keyed:
                tkey = json.dumps(c["type"], sort_keys=True)
                if tkey != last:
                    apischema.cache.reset()
                    replay_deser.clear_typing_caches()
                    u._types.clear()
                    last = tkey
                tp = u.type(c["type"])
                base_kw = replay_deser.kwargs_of(u, c["opts"])
                dups = replay_deser.has_union(c["type"], u.classes)
                import dataclasses as _dc

                all_dc = tuple(v for v in u.ctx.ns.values() if isinstance(v, type) and _dc.is_dataclass(v))
                for no_copy, via_method, pt in ((False, False, False), (False, True, False), (True, False, False),
                                                (True, True, False), (True, False, True), (False, False, True)):
                    if True:
                        kw = dict(base_kw, no_copy=no_copy)
                        if pt:
                            # every dataclass of the universe is passed through: data in JSON form must
                            # still be deserialized (pass_through only lets INSTANCES through)
                            kw["pass_through"] = all_dc
                        data = bridge.dec_data(c["data"])
                        if via_method:
                            out = record.run_deserialize(u.ctx, tp, data, kw, method=True)
                        else:
                            out = record.run_deserialize(u.ctx, tp, data, kw)
                        n += 1
                        vd = compare.deser_verdict(c["expect"], out, c.get("ambig", False), dups_ok=dups)
                        label = f"no_copy={no_copy} override_dataclass_constructors={odc} method={via_method} pass_through={'all dataclasses' if pt else '()'}"
                        if vd != "ok":
                            rep.violation(f"[{vd}] under {label}: {bridge.type_expr(c['type'])} <- {json.dumps(bridge.dec_data(c['data']))[:200]}",
                                          {"type": bridge.type_expr(c["type"]), "data": c["data"], "options": label,
                                           "expected": c["expect"], "actual": {k: out[k] for k in ("kind", "v", "errs", "exc")}})
                        elif out.get("mutated"):
                            rep.violation(f"[input-modified] under {label}: {bridge.type_expr(c['type'])}", {"data": c["data"], "options": label})
                        elif not no_copy and out.get("shares") and not _has_any(c["type"], u.classes):
                            rep.violation(f"[shares] no_copy=False but the result shares a mutable container with the input "
                                          f"({label}): {bridge.type_expr(c['type'])} <- {json.dumps(bridge.dec_data(c['data']))[:200]}",
                                          {"type": bridge.type_expr(c["type"]), "data": c["data"], "options": label})
                # pass_through with data already holding INSTANCES of the passed-through classes (where the prediction
                # is an instance): the instance is let through as it is, whatever the strategy of the enclosing union
                # or container -- the outcome is the predicted one
                if c["expect"].get("ok") and c["expect"]["v"].get("k") != "unspecified":
                    try:
                        data2, hit = _inject_instances(u, c["type"], bridge.dec_data(c["data"]), c["expect"]["v"])
                    except Exception:
                        hit = False
                    if hit:
                        for no_copy in (False, True):
                            kw = dict(base_kw, no_copy=no_copy, pass_through=all_dc)
                            out = record.run_deserialize(u.ctx, tp, data2, kw)
                            n += 1
                            vd = compare.deser_verdict(c["expect"], out, c.get("ambig", False), dups_ok=dups)
                            if vd != "ok":
                                label = f"no_copy={no_copy} override_dataclass_constructors={odc} pass_through=all dataclasses, instances in the data"
                                rep.violation(f"[{vd}] under {label}: {bridge.type_expr(c['type'])} <- {data2!r}"[:600],
                                              {"type": bridge.type_expr(c["type"]), "data": c["data"], "options": label, "expected": c["expect"],
                                               "actual": {k: out.get(k) for k in ("kind", "v", "errs", "exc")}})
        settings.deserialization.override_dataclass_constructors = False
        bridge.cleanup_gen_dir()
    return n


def main() -> int:
    rep = common.Report("C08", "model_checking")
    thorough = common.tier() == "thorough"
    rep.assumptions = ["the specification ignores the optimization options: its prediction is what every option vector must give",
                       "identity is observed on mutable containers only (list, dict, set, instances' __dict__)"]
    engine_ser.run("C08", rep, per_case=ser_per_case)
    n = deser_variants(rep, ["d0", "d1", "d2"] if thorough else ["d0", "d1"])
    rep.set("deserialization_variant_runs", n)
    rep.set("evaluations", rep.cov.get("evaluations", 0) + n)
    return rep.finish()


def replay(path: str) -> int:
    print(json.dumps(json.load(open(path)), indent=1)[:4000])
    return 1
