from harness import common, engine_ser


def untyped_containers_law(rep: common.Report) -> int:
    """serialize(v) without a type (fall_back_on_any) on values whose class is a SUBCLASS of a supported container
    (OrderedDict, defaultdict, Counter, a user Mapping / Sequence / Set): beyond the universe's encoding, so the law is
    checked on the real code on both sides -- the image is the one of the plain container with the same items, made
    of JSON data only."""
    import collections
    import collections.abc
    import enum
    import json

    from apischema import serialize

    class E(enum.Enum):
        A = "a"

    class MyMap(collections.abc.Mapping):
        def __init__(self, d):
            self.d = d

        def __getitem__(self, k):
            return self.d[k]

        def __iter__(self):
            return iter(self.d)

        def __len__(self):
            return len(self.d)

    class MySeq(collections.abc.Sequence):
        def __init__(self, xs):
            self.xs = xs

        def __getitem__(self, i):
            return self.xs[i]

        def __len__(self):
            return len(self.xs)

    class MyList(list):
        pass

    class MyDict(dict):
        pass

    items = {"b": 1, "a": [E.A, {"k": E.A}], "c": None}
    dd = collections.defaultdict(list, items)
    cases = [("OrderedDict", collections.OrderedDict(items), dict(items)), ("defaultdict", dd, dict(items)),
             ("Counter", collections.Counter("aab"), {"a": 2, "b": 1}), ("dict subclass", MyDict(items), dict(items)),
             ("user Mapping", MyMap(items), dict(items)), ("ChainMap", collections.ChainMap({"x": E.A}, {"y": 2}), dict(collections.ChainMap({"x": E.A}, {"y": 2}).items())),
             ("list subclass", MyList([E.A, 1]), [E.A, 1]), ("user Sequence", MySeq([E.A, 1]), [E.A, 1]),
             ("deque", collections.deque([E.A, 1]), [E.A, 1]), ("nested", [collections.OrderedDict(items)], [dict(items)]),
             ("dict of OrderedDict", {"o": collections.OrderedDict(items)}, {"o": dict(items)})]
    n = 0
    for label, value, plain in cases:
        for kw in ({}, {"fall_back_on_any": True}, {"fall_back_on_any": True, "no_copy": False}):
            n += 1
            try:
                want = serialize(plain, **kw)
                got = serialize(value, **kw)
                json.dumps(got)
            except Exception as exc:
                rep.violation(f"[escape] untyped containers: serialize(<{label}>, {kw}) raised {type(exc).__name__}: {exc}", {"value": repr(value)})
                continue
            if got != want or (isinstance(want, dict) and list(got) != list(want)):
                rep.violation(f"[image] untyped containers: serialize(<{label}> {value!r}, {kw}) = {got!r} but the plain container with the "
                              f"same items gives {want!r}", {"value": repr(value), "got": repr(got), "want": repr(want)})
    return n


def main() -> int:
    rep = common.Report("C04", "model_checking")
    rep.assumptions = ["reference semantics = spec/Serialization.tla (docs/de_serialization.md, DESIGN A.5)",
                       "values are the typed images of the conforming data of the deserialization universe",
                       "exclude_unset / fields-set classes are decided with C15, key ORDER with C16",
                       "subclasses of the supported containers (OrderedDict, Counter, user Mapping / Sequence) are outside the universe's "
                       "encoding: serialize(v) without a type is compared with the plain container of the same items on the real code"]
    engine_ser.run("C04", rep)
    rep.set("untyped_container_cases", untyped_containers_law(rep))
    return rep.finish()


def replay(path: str) -> int:
    import json

    print(json.dumps(json.load(open(path)), indent=1)[:4000])
    return 1
