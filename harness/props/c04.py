from harness import common, engine_ser


def main() -> int:
    rep = common.Report("C04", "model_checking")
    rep.assumptions = ["reference semantics = spec/Serialization.tla (docs/de_serialization.md, DESIGN A.5)",
                       "values are the typed images of the conforming data of the deserialization universe",
                       "exclude_unset / fields-set classes are decided with C15, key ORDER with C16"]
    engine_ser.run("C04", rep)
    return rep.finish()


def replay(path: str) -> int:
    import json

    print(json.dumps(json.load(open(path)), indent=1)[:4000])
    return 1
