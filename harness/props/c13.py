"""C13 -- union dispatch shortcuts equal try-each-alternative (spec/DataModel.tla: MUnion vs RD)."""
import itertools
import json
import sys
import types
from typing import Any, Union

from harness import common, engine_deser

HIER_SRC = '''
from dataclasses import dataclass
from apischema import discriminator


@discriminator("type")
class Animal:
    pass


@dataclass
class Cat(Animal):
    lives: int = 9


@dataclass
class Dog(Animal):
    bark: bool = True


@dataclass
class Robot:      # not an Animal
    model: str = "r2"


@dataclass
class Drone:      # not an Animal either
    rotors: int = 4
'''


def hierarchy_law(rep: common.Report) -> int:
    """Beyond the universe (class-level, INHERITED discriminators are not in its encoding): a union in which only
    some alternatives inherit a @discriminator is a plain union; the law of the property itself is checked with the
    real code on both sides: deserialize(Union[alts], d) = the first deserialize(alt, d) that accepts."""
    import apischema.cache
    from apischema import ValidationError, deserialize

    mod = types.ModuleType("verifhier")
    sys.modules["verifhier"] = mod
    exec(compile(HIER_SRC, "<verifhier>", "exec"), mod.__dict__)
    data = [{"lives": 3}, {"type": "Cat", "lives": 3}, {"type": "Dog"}, {"bark": False}, {"model": "x"}, {"rotors": 2}, {},
            {"type": "Cat"}, {"type": "Robot"}, 5, "a", None, {"lives": "x"}, {"zz": 1}]
    mixed = [("Robot", "Cat"), ("Cat", "Robot"), ("Cat", "Robot", "Dog"), ("Robot", "Cat", "Dog"), ("Drone", "Dog"),
             ("Dog", "Drone", "Cat"), ("int", "Cat"), ("Cat", "int"), ("Drone", "Robot")]
    n = 0

    def outcome(fn):
        try:
            return ("ok", repr(fn()))
        except ValidationError:
            return ("rejected", None)
        except Exception as exc:
            return ("raised", type(exc).__name__)

    for names in mixed:
        alts = [int if x == "int" else getattr(mod, x) for x in names]
        tp = Union[tuple(alts)]
        apischema.cache.reset()      # Union[A, B] == Union[B, A]: one cache entry (known finding F-unionkey of C09)
        for d in data:
            n += 1
            want = ("rejected", None)
            for alt in alts:
                r = outcome(lambda: deserialize(alt, d))
                if r[0] != "rejected":
                    want = r
                    break
            got = outcome(lambda: deserialize(tp, d))
            if got != want:
                rep.violation(f"hierarchy law: deserialize(Union[{', '.join(names)}], {json.dumps(d)}) = {got} but the first "
                              f"alternative accepting it gives {want} (only some alternatives inherit the discriminator)",
                              {"union": list(names), "data": d, "got": got, "want": want})
    return n


SER_SRC = '''
from dataclasses import dataclass
from typing import Annotated, Literal, NamedTuple, TypedDict, Union
from apischema import discriminator


class Seg(TypedDict):
    kind: Literal["seg"]
    length: int


class Pt(NamedTuple):
    x: int = 0




@dataclass
class Circle:
    kind: Literal["circle", "disc"]
    radius: int = 1


@dataclass
class Square:
    side: int = 1


@dataclass
class Tri:
    kind: Literal["tri"] = "tri"


Shape = Annotated[Union[Circle, Square, Tri], discriminator("kind")]
# a discriminated union MIXING a TypedDict (a plain dict, told by its discriminator key) with classes
Mixed = Annotated[Union[Seg, Square, Pt], discriminator("kind")]


@discriminator("type")
class Pet:
    pass


@dataclass
class Kit(Pet):
    type: Literal["cat", "kitten"] = "cat"


@dataclass
class Pup(Pet):
    pass
'''


def serialization_law(rep: common.Report) -> int:
    """The serialization side of the same law, on the real code: the image of a value under a (discriminated) union is
    the image under the alternative it is an instance of, completed by the discriminator ONLY when the alternative does
    not emit that key itself -- and it comes back as the same value."""
    from apischema import deserialize, serialize

    mod = types.ModuleType("verifunionser")
    sys.modules["verifunionser"] = mod
    exec(compile(SER_SRC, "<verifunionser>", "exec"), mod.__dict__)
    n = 0
    cases = [(mod.Shape, "kind", v) for v in (mod.Circle("circle", 5), mod.Circle("disc", 5), mod.Square(4), mod.Tri())] + \
            [(mod.Mixed, "kind", v) for v in (mod.Square(4), mod.Pt(3), {"kind": "seg", "length": 2})] + \
            [(mod.Pet, "type", v) for v in (mod.Kit("cat"), mod.Kit("kitten"), mod.Pup())] + \
            [(Union[mod.Kit, mod.Pup], "type", v) for v in (mod.Kit("kitten"), mod.Pup())]
    for tp, key, v in cases:
        n += 1
        try:
            got = serialize(tp, v)
            own = serialize(mod.Seg if isinstance(v, dict) else type(v), v)
            back = deserialize(tp, got)
        except Exception as exc:
            rep.violation(f"serialization law: {v!r} under its union raised {type(exc).__name__}: {exc}", {"value": repr(v)})
            continue
        rest = {k: x for k, x in got.items() if k != key or key in own}
        if rest != own or key not in got or back != v:
            rep.violation(f"serialization law: serialize(<union>, {v!r}) = {got} while the alternative alone gives {own}; "
                          f"deserialized back to {back!r}", {"value": repr(v), "union_image": got, "alternative_image": own})
    return n


TAGGED_CFG = """CONSTANTS Deviations = %s
SPECIFICATION Spec
INVARIANT ExactlyOneTag
INVARIANT NoEscape
INVARIANT RoundTripT
"""


def tagged_union_model(rep: common.Report) -> int:
    """spec/Tagged.tla: 'a TaggedUnion accepts exactly one tag'.  TLC checks the code-shaped path against the rule,
    the deviation of the pinned tree (the constructor's ValueError) must violate NoEscape, and every case is replayed on
    a real TaggedUnion class: outcome, value (tag + image), error locations / rules, serialization, round trip."""
    from harness import bridge, compare, replay_deser, tlc

    from apischema import ValidationError, deserialize, serialize
    from apischema.tagged_unions import Tagged, TaggedUnion, get_tagged

    neg = tlc.run_tlc("MC_Tagged", TAGGED_CFG % '{"ctorvalueerror"}', workers=4, env={"EMIT": "0"}, timeout_s=600)
    rep.set("tagged_negative_checks", {"ctorvalueerror": neg.violated})
    if neg.violated != "NoEscape":
        rep.violation("negative check: the deviation ctorvalueerror does not violate NoEscape (vacuous law)", {})
    res = tlc.run_tlc("MC_Tagged", TAGGED_CFG % "{}", workers=4, env={"EMIT": "1"}, timeout_s=600)
    if res.violated:
        rep.violation(f"TLC: {res.violated} violated by the TaggedUnion model", {"tlc": res.error_trace[:40]})
        return 0
    header, cases = replay_deser.parse_emitted(res.prints)
    u = replay_deser.Universe(header, [t[1] for c in cases for t in c["tags"]])
    built = {}
    n = 0
    for c in cases:
        key = json.dumps(c["tags"], sort_keys=True)
        if key not in built:
            ns = {"__annotations__": {name: Tagged[u.type(T)] for name, T in c["tags"]}, "__module__": __name__}
            for name, _ in c["tags"]:
                ns[name] = Tagged()
            built[key] = type(f"TU{len(built)}", (TaggedUnion,), ns)
        TU = built[key]
        data = bridge.dec_data(c["data"])
        label = f"TaggedUnion{[(n_, bridge.type_expr(T)) for n_, T in c['tags']]} <- {json.dumps(data)} (additional_properties={c['addl']}, fall_back_on_default={c['fbd']})"
        n += 1
        kw = {"additional_properties": c["addl"], "fall_back_on_default": c["fbd"]}
        skw = {}
        if u.aliaser(c["ali"]) is not None:
            kw["aliaser"] = skw["aliaser"] = u.aliaser(c["ali"])
            label += f" aliaser={c['ali']}"
        try:
            got = deserialize(TU, data, **kw)
            out = {"kind": "ok", "tagged": get_tagged(got)}
        except ValidationError as err:
            out = {"kind": "verr", "errs": bridge.enc_errors(err.errors), "order_ok": bridge.errors_order_ok(err.errors)}
        except Exception as exc:
            out = {"kind": "exc", "exc": f"{type(exc).__name__}: {exc}"}
        exp = c["expect"]
        if out["kind"] == "exc":
            if c["devkind"] == "exc" and out["exc"].startswith("ValueError: TaggedUnion constructor expects only one field"):
                rep.violation(f"[escape] {label}: {out['exc']}", {"case": c, "actual": out}, finding_key="F-taggedunion-ctor")
            else:
                rep.violation(f"[escape] {label}: {out['exc']}", {"case": c, "actual": out})
            continue
        if exp.get("ok") and exp["v"].get("k") == "unspecified":
            continue
        if c["kind"] == "ok":
            if out["kind"] != "ok":
                rep.violation(f"[rejected-conforming] {label}: {out['errs']}", {"case": c, "actual": out})
                continue
            tag, val = out["tagged"]
            try:
                same = tag == exp["v"]["tag"] and bridge.values_equal(exp["v"]["v"], u.ctx.enc_value(val))
            except bridge.Unencodable:
                same = False
            if not same:
                rep.violation(f"[image] {label}: got {tag}={val!r}, expected {json.dumps(exp['v'])[:200]}", {"case": c})
                continue
            ser = serialize(TU, got, **skw)
            from harness import engine_ser
            try:
                ok = engine_ser.ser_equal(c["ser"], bridge.enc_data(ser))
            except bridge.Unencodable:
                ok = False
            if not ok:
                rep.violation(f"[serialize] {label}: serialize gives {ser!r}, expected {json.dumps(c['ser'])[:200]}", {"case": c})
            elif get_tagged(deserialize(TU, ser, **kw))[0] != tag:
                rep.violation(f"[roundtrip] {label}: {ser!r} does not come back under tag {tag}", {"case": c})
        else:
            if out["kind"] == "ok":
                rep.violation(f"[accepted-nonconforming] {label}: accepted as {out['tagged']!r}", {"case": c})
                continue
            vd = compare.deser_verdict(exp, {"kind": "verr", "v": {"k": "null"}, "errs": out["errs"], "order_ok": out["order_ok"], "exc": ""},
                                       False, dups_ok=True)
            if vd != "ok":
                rep.violation(f"[{vd}] {label}: errors {out['errs']}, the model expects {exp['e']} (allowed: {exp['x']})", {"case": c, "actual": out})
    return n


def main() -> int:
    rep = common.Report("C13", "model_checking")
    rep.assumptions = ["reference semantics = spec/DataModel.tla (first accepting alternative; documented coercion table)",
                       "string -> number parsing and boolean words are Python's own, carried as string attributes",
                       "TaggedUnion: spec/Tagged.tla (rule vs the code-shaped path), replayed on real TaggedUnion classes",
                       "class-level inherited discriminators are outside the universe's encoding: for unions mixing such a "
                       "hierarchy with foreign alternatives the try-each law is checked on the real code directly"]
    engine_deser.run("C13", rep, tiers_quick=("u", "d1"), tiers_thorough=("u", "d1", "d2"), only_unions=True, negative={"nofloatfallback": "DispatchEqSequential"})
    rep.set("hierarchy_law_cases", hierarchy_law(rep))
    rep.set("serialization_law_cases", serialization_law(rep))
    rep.set("tagged_union_cases", tagged_union_model(rep))
    return rep.finish()


def replay(path: str) -> int:
    from harness import replay_one

    return replay_one.replay("C13", path)
