from harness import common, engine_deser


def main() -> int:
    rep = common.Report("C13", "model_checking")
    rep.assumptions = ["reference semantics = spec/DataModel.tla (first accepting alternative; documented coercion table)",
                       "string -> number parsing and boolean words are Python's own, carried as string attributes"]
    engine_deser.run("C13", rep, tiers_quick=("u", "d1"), tiers_thorough=("u", "d1", "d2"), only_unions=True, negative={"nofloatfallback": "DispatchEqSequential"})
    return rep.finish()


def replay(path: str) -> int:
    from harness import replay_one

    return replay_one.replay("C13", path)
