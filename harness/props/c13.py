"""C13 -- union dispatch shortcuts equal try-each-alternative (spec/DataModel.tla: MUnion vs RD)."""
import itertools
import json
import sys
import types
from typing import Any, Union

from harness import common, engine_deser

HIER_SRC = '''
from dataclasses import dataclass
from apischema import discriminator


@discriminator("type")
class Animal:
    pass


@dataclass
class Cat(Animal):
    lives: int = 9


@dataclass
class Dog(Animal):
    bark: bool = True


@dataclass
class Robot:      # not an Animal
    model: str = "r2"


@dataclass
class Drone:      # not an Animal either
    rotors: int = 4
'''


def hierarchy_law(rep: common.Report) -> int:
    """Beyond the universe (class-level, INHERITED discriminators are not in its encoding): a union in which only
    some alternatives inherit a @discriminator is a plain union; the law of the property itself is checked with the
    real code on both sides: deserialize(Union[alts], d) = the first deserialize(alt, d) that accepts."""
    import apischema.cache
    from apischema import ValidationError, deserialize

    mod = types.ModuleType("verifhier")
    sys.modules["verifhier"] = mod
    exec(compile(HIER_SRC, "<verifhier>", "exec"), mod.__dict__)
    data = [{"lives": 3}, {"type": "Cat", "lives": 3}, {"type": "Dog"}, {"bark": False}, {"model": "x"}, {"rotors": 2}, {},
            {"type": "Cat"}, {"type": "Robot"}, 5, "a", None, {"lives": "x"}, {"zz": 1}]
    mixed = [("Robot", "Cat"), ("Cat", "Robot"), ("Cat", "Robot", "Dog"), ("Robot", "Cat", "Dog"), ("Drone", "Dog"),
             ("Dog", "Drone", "Cat"), ("int", "Cat"), ("Cat", "int"), ("Drone", "Robot")]
    n = 0

    def outcome(fn):
        try:
            return ("ok", repr(fn()))
        except ValidationError:
            return ("rejected", None)
        except Exception as exc:
            return ("raised", type(exc).__name__)

    for names in mixed:
        alts = [int if x == "int" else getattr(mod, x) for x in names]
        tp = Union[tuple(alts)]
        apischema.cache.reset()      # Union[A, B] == Union[B, A]: one cache entry (known finding F-unionkey of C09)
        for d in data:
            n += 1
            want = ("rejected", None)
            for alt in alts:
                r = outcome(lambda: deserialize(alt, d))
                if r[0] != "rejected":
                    want = r
                    break
            got = outcome(lambda: deserialize(tp, d))
            if got != want:
                rep.violation(f"hierarchy law: deserialize(Union[{', '.join(names)}], {json.dumps(d)}) = {got} but the first "
                              f"alternative accepting it gives {want} (only some alternatives inherit the discriminator)",
                              {"union": list(names), "data": d, "got": got, "want": want})
    return n


SER_SRC = '''
from dataclasses import dataclass
from typing import Annotated, Literal, NamedTuple, TypedDict, Union
from apischema import discriminator


class Seg(TypedDict):
    kind: Literal["seg"]
    length: int


class Pt(NamedTuple):
    x: int = 0




@dataclass
class Circle:
    kind: Literal["circle", "disc"]
    radius: int = 1


@dataclass
class Square:
    side: int = 1


@dataclass
class Tri:
    kind: Literal["tri"] = "tri"


Shape = Annotated[Union[Circle, Square, Tri], discriminator("kind")]
# a discriminated union MIXING a TypedDict (a plain dict, told by its discriminator key) with classes
Mixed = Annotated[Union[Seg, Square, Pt], discriminator("kind")]


@discriminator("type")
class Pet:
    pass


@dataclass
class Kit(Pet):
    type: Literal["cat", "kitten"] = "cat"


@dataclass
class Pup(Pet):
    pass
'''


def serialization_law(rep: common.Report) -> int:
    """The serialization side of the same law, on the real code: the image of a value under a (discriminated) union is
    the image under the alternative it is an instance of, completed by the discriminator ONLY when the alternative does
    not emit that key itself -- and it comes back as the same value."""
    from apischema import deserialize, serialize

    mod = types.ModuleType("verifunionser")
    sys.modules["verifunionser"] = mod
    exec(compile(SER_SRC, "<verifunionser>", "exec"), mod.__dict__)
    n = 0
    cases = [(mod.Shape, "kind", v) for v in (mod.Circle("circle", 5), mod.Circle("disc", 5), mod.Square(4), mod.Tri())] + \
            [(mod.Mixed, "kind", v) for v in (mod.Square(4), mod.Pt(3), {"kind": "seg", "length": 2})] + \
            [(mod.Pet, "type", v) for v in (mod.Kit("cat"), mod.Kit("kitten"), mod.Pup())] + \
            [(Union[mod.Kit, mod.Pup], "type", v) for v in (mod.Kit("kitten"), mod.Pup())]
    for tp, key, v in cases:
        n += 1
        try:
            got = serialize(tp, v)
            own = serialize(mod.Seg if isinstance(v, dict) else type(v), v)
            back = deserialize(tp, got)
        except Exception as exc:
            rep.violation(f"serialization law: {v!r} under its union raised {type(exc).__name__}: {exc}", {"value": repr(v)})
            continue
        rest = {k: x for k, x in got.items() if k != key or key in own}
        if rest != own or key not in got or back != v:
            rep.violation(f"serialization law: serialize(<union>, {v!r}) = {got} while the alternative alone gives {own}; "
                          f"deserialized back to {back!r}", {"value": repr(v), "union_image": got, "alternative_image": own})
    return n


def main() -> int:
    rep = common.Report("C13", "model_checking")
    rep.assumptions = ["reference semantics = spec/DataModel.tla (first accepting alternative; documented coercion table)",
                       "string -> number parsing and boolean words are Python's own, carried as string attributes",
                       "class-level inherited discriminators are outside the universe's encoding: for unions mixing such a "
                       "hierarchy with foreign alternatives the try-each law is checked on the real code directly"]
    engine_deser.run("C13", rep, tiers_quick=("u", "d1"), tiers_thorough=("u", "d1", "d2"), only_unions=True, negative={"nofloatfallback": "DispatchEqSequential"})
    rep.set("hierarchy_law_cases", hierarchy_law(rep))
    rep.set("serialization_law_cases", serialization_law(rep))
    return rep.finish()


def replay(path: str) -> int:
    from harness import replay_one

    return replay_one.replay("C13", path)
