"""C05 -- round trip: deserialize after serialize is the identity on values."""
from __future__ import annotations

import json
from typing import Any, List

from harness import bridge, common, engine_ser


def per_case(u, c, tp, val, kw, out, violate):
    from apischema import ValidationError, deserialize

    if not c["bij"] or c["opts"].get("exn"):     # exclude_none is outside C05 (see MC_Ser!RoundTrip)
        return
    dkw = {k: v for k, v in kw.items() if k in ("aliaser", "additional_properties")}
    for label, data in (("roundtrip", out["raw"]), ("roundtrip-json", None)):
        if data is None:
            try:
                data = json.loads(json.dumps(out["raw"]))
            except (TypeError, ValueError) as exc:
                violate("roundtrip-json", f"json.dumps of the serialized data failed: {exc!r}")
                continue
        try:
            back = deserialize(tp, data, **dkw)
        except ValidationError as err:
            violate(label, f"serialized data rejected by deserialize: {err.errors[:3]}")
            continue
        except Exception as exc:
            violate("roundtrip-escape", f"deserialize raised {type(exc).__name__}: {exc}")
            continue
        try:
            enc = u.ctx.enc_value(back)
        except bridge.Unencodable:
            continue
        a, b = c["value"], enc
        if c.get("ambig"):
            from harness.compare import _num_norm

            a, b = _num_norm(a), _num_norm(b)
        if not bridge.values_equal(a, b):
            violate(label, f"deserialize(serialize(v)) = {json.dumps(enc)[:300]} differs from v (runtime classes included)")


STD_POOL_SRC = '''
import datetime, decimal, ipaddress, pathlib, re, uuid, collections
POOL = {
  "uuid.UUID": [uuid.UUID(int=0), uuid.UUID("12345678-1234-5678-1234-567812345678")],
  "datetime.date": [datetime.date(2020, 2, 29), datetime.date(1, 1, 1)],
  "datetime.datetime": [datetime.datetime(2021, 3, 4, 5, 6, 7), datetime.datetime(2021, 3, 4, 5, 6, 7, 89,
                        tzinfo=datetime.timezone.utc)],
  "datetime.time": [datetime.time(0, 0), datetime.time(23, 59, 59, 123456)],
  "decimal.Decimal": [decimal.Decimal("1.5"), decimal.Decimal("0"), decimal.Decimal("-2.25")],
  "bytes": [b"", b"abc", bytes(range(256))],
  "pathlib.Path": [pathlib.Path("a/b"), pathlib.Path("/")],
  "ipaddress.IPv4Address": [ipaddress.IPv4Address("127.0.0.1")],
  "ipaddress.IPv6Address": [ipaddress.IPv6Address("::1")],
  "ipaddress.IPv4Network": [ipaddress.IPv4Network("10.0.0.0/8")],
  "ipaddress.IPv4Interface": [ipaddress.IPv4Interface("10.0.0.1/8")],
  "re.Pattern": [re.compile("a+b"), re.compile("")],
}
'''


def std_types(rep: common.Report) -> int:
    """Standard-library converted types: the spec treats them as registered bijections on a
    finite pool of sample values (DESIGN 7 C05); the round trip itself is run in the code."""
    import collections
    import dataclasses
    import typing

    from apischema import ValidationError, deserialize, serialize

    ns: dict = {}
    exec(STD_POOL_SRC, ns)
    n = 0
    for tname, values in ns["POOL"].items():
        tp = eval(tname, ns)
        holder = dataclasses.make_dataclass("Holder_" + tname.replace(".", "_"), [("x", tp), ("o", typing.Optional[tp], None)])
        shapes = [
            (tp, lambda v: v),
            (typing.List[tp], lambda v: [v, v]),
            (typing.Optional[tp], lambda v: v),
            (typing.Dict[str, tp], lambda v: {"k": v}),
            (typing.Tuple[tp, int], lambda v: (v, 1)),
            (holder, lambda v: holder(v, v)),
            (typing.Union[int, tp], lambda v: v),
        ]
        if tname not in ("re.Pattern",):
            shapes.append((typing.Deque[tp], lambda v: collections.deque([v])))
        for T, wrap in shapes:
            for v in values:
                val = wrap(v)
                n += 1
                try:
                    data = serialize(T, val)
                    data2 = json.loads(json.dumps(data))
                    back = deserialize(T, data2)
                except Exception as exc:
                    rep.violation(f"[roundtrip-escape] std type {T}: {type(exc).__name__}: {exc}", {"type": str(T), "value": repr(val)})
                    continue
                if back != val or type(back) is not type(val):
                    rep.violation(f"[roundtrip] std type {T}: {val!r} -> {data!r} -> {back!r}", {"type": str(T), "value": repr(val)})
    return n


def main() -> int:
    rep = common.Report("C05", "model_checking")
    rep.assumptions = ["the bijective fragment is the predicate Bijective of spec/mc/MC_Ser.tla",
                       "standard-library converted types are exercised on sample pools (values and their images are "
                       "the standard library's), not modelled"]
    engine_ser.run("C05", rep, per_case=per_case)
    n = std_types(rep)
    rep.set("std_type_roundtrips", n)
    rep.set("evaluations", rep.cov.get("evaluations", 0) + n)
    return rep.finish()


def replay(path: str) -> int:
    print(json.dumps(json.load(open(path)), indent=1)[:4000])
    return 1
