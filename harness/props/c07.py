"""C07 -- serialized data validates against serialization_schema."""
from __future__ import annotations

import json
from typing import Any

from harness import bridge, common, engine_ser

GAP_FINDINGS = {"flattened": "F-flattened-schema", "discriminated": "F-discriminated-schema", "patoverlap": "F-pattern-overlap"}
_state = {"key": None, "validator": None, "err": None}


def per_case(u, c, tp, val, kw, out, violate):
    """Schema generated under the same settings (exclude_* as GLOBAL settings, as the property states)."""
    import jsonschema
    from apischema import serialize, settings
    from apischema.json_schema import serialization_schema

    key = json.dumps([c["type"], c["opts"]["exn"], c["opts"]["exd"], c["opts"]["addl"], c["opts"]["aliname"]], sort_keys=True)
    settings.serialization.exclude_none = c["opts"]["exn"]
    settings.serialization.exclude_defaults = c["opts"]["exd"]
    try:
        if key != _state["key"]:
            _state["key"] = key
            skw = {k: v for k, v in kw.items() if k in ("additional_properties", "aliaser")}
            try:
                schema = serialization_schema(tp, **skw)
                _state["validator"], _state["err"] = jsonschema.Draft202012Validator(schema), None
                _state["schema"] = schema
            except Exception as exc:
                _state["validator"], _state["err"] = None, f"{type(exc).__name__}: {exc}"
        if _state["validator"] is None:
            violate("schema-error", "serialization_schema raised " + str(_state["err"]))
            return
        # the datum serialized under the same GLOBAL settings (no per-call exclude_* arguments)
        gkw = {k: v for k, v in kw.items() if k in ("additional_properties", "aliaser")}
        r = engine_ser.run_serialize(serialize, tp, val, **gkw)
        if r["kind"] == "nonjson":
            # what is not even JSON data validates against no schema (the model says the schema accepts the image)
            if c["saccept"]:
                violate("schema-rejects", f"the serialized datum is not JSON data ({r['why']}): it cannot validate against serialization_schema",
                        {"schema": _state["schema"], "serialized": repr(r["raw"])[:200]})
            return
        if r["kind"] != "ok":
            return
        ok = _state["validator"].is_valid(r["raw"])
        extra = {"schema": _state["schema"], "serialized": r["d"], "schema_accepts": ok, "model_schema_accepts": c["saccept"]}
        if ok != c["saccept"]:
            violate("schema-model", f"the generated serialization schema {'accepts' if ok else 'rejects'} the serialized datum but the "
                                    "model of the builder says the opposite", extra)
        elif not ok and "propcount" in c["gaps"]:
            return      # a property-count constraint under omission options: outside C07 (see MC_Ser!UsesFeatureS)
        elif not ok:
            gap = sorted(c["gaps"])[0] if c["gaps"] else None
            errs = [e.message[:120] for e in list(_state["validator"].iter_errors(r["raw"]))[:3]]
            violate("schema-rejects", f"serialized datum does not validate against serialization_schema: {errs}", extra,
                    finding=GAP_FINDINGS.get(gap) if gap else None)
    finally:
        settings.serialization.exclude_none = False
        settings.serialization.exclude_defaults = False


GENERIC_SRC = '''
from dataclasses import dataclass
from typing import Generic, List, NewType, Optional, TypeVar
from apischema import serialized, serializer

T = TypeVar("T")


@dataclass
class Parent:
    p: int


@dataclass
class Child(Parent):
    c: int = 0


class Stamp:
    def __init__(self, n):
        self.n = n


@serializer
def stamp_to_int(s: Stamp) -> int:
    return s.n


@dataclass
class Page(Generic[T]):
    items: List[T]

    @serialized
    def first(self) -> Optional[T]:
        return self.items[0] if self.items else None

    @serialized
    def again(self) -> List[T]:
        return list(self.items)
'''


def generic_scenarios(rep: common.Report) -> int:
    """Beyond the universe (its encoding has no generic classes): a Generic dataclass whose serialized methods
    mention the type variable; what serialize emits for Page[X] must validate against serialization_schema(Page[X])."""
    import sys
    import types

    import jsonschema
    from apischema import serialize
    from apischema.json_schema import serialization_schema

    mod = types.ModuleType("verifgeneric")
    sys.modules["verifgeneric"] = mod
    exec(compile(GENERIC_SRC, "<verifgeneric>", "exec"), mod.__dict__)
    n = 0
    for label, tp, val in (("Page[int]", mod.Page[int], mod.Page([1, 2])),
                           ("Page[Parent] holding Child instances", mod.Page[mod.Parent], mod.Page([mod.Child(1, 2), mod.Parent(3)])),
                           ("Page[Stamp] (a converted class)", mod.Page[mod.Stamp], mod.Page([mod.Stamp(5)])),
                           ("Page[Parent], empty", mod.Page[mod.Parent], mod.Page([]))):
        n += 1
        try:
            schema = serialization_schema(tp)
            data = serialize(tp, val)
        except Exception as exc:
            rep.violation(f"[schema-error] {label}: {type(exc).__name__}: {exc}", {"type": label})
            continue
        errs = [e.message[:150] for e in jsonschema.Draft202012Validator(schema).iter_errors(data)]
        if errs:
            rep.violation(f"[schema-rejects] {label}: serialize gives {data} which serialization_schema rejects: {errs[:2]}",
                          {"type": label, "schema": schema, "serialized": data})
    return n


def main() -> int:
    rep = common.Report("C07", "model_checking")
    rep.assumptions = ["jsonschema (Draft 2020-12) is the independent JSON Schema semantics",
                       "exclude_defaults / exclude_none are set as global settings for both the schema and serialize",
                       "no field is dropped by unset-tracking (universe classes are not with_fields_set)"]
    engine_ser.run("C07", rep, per_case=per_case, per_case_nonjson=True)
    rep.set("generic_class_scenarios", generic_scenarios(rep))
    return rep.finish()


def replay(path: str) -> int:
    print(json.dumps(json.load(open(path)), indent=1)[:5000])
    return 1
