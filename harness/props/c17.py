"""C17 -- generated JSON Schemas are well-formed, closed and finite (spec/SchemaRefs.tla)."""
from __future__ import annotations

import json
import signal
from typing import Any, Dict, List

from harness import bridge, common, replay_deser, tlc

CFG = """CONSTANT Tier = "%s"
SPECIFICATION Spec
INVARIANT AllRefsRule
INVARIANT RefsMonotone
INVARIANT OnlyRule
INVARIANT DiscriminatedAreRefs
INVARIANT Terminates
"""


class Timeout(Exception):
    pass


def _alarm(*_):
    raise Timeout()


def collect_refs(schema: Any, acc: List[str]):
    if isinstance(schema, dict):
        for k, v in schema.items():
            if k == "$ref" and isinstance(v, str):
                acc.append(v)
            else:
                collect_refs(v, acc)
    elif isinstance(schema, list):
        for v in schema:
            collect_refs(v, acc)


def check_one(rep: common.Report, label: str, tp: Any, expected: Dict[bool, set], direction: str):
    import jsonschema
    from apischema.json_schema import JsonSchemaVersion, definitions_schema, deserialization_schema, serialization_schema

    fn = deserialization_schema if direction == "d" else serialization_schema
    key = "deserialization" if direction == "d" else "serialization"
    n = 0
    for all_refs in (False, True):
        signal.signal(signal.SIGALRM, _alarm)
        signal.alarm(20)
        try:
            schema = fn(tp, all_refs=all_refs)
            defs = definitions_schema(**{key: [tp]}, all_refs=all_refs)
            variants = {"draft-07": (fn(tp, all_refs=all_refs, version=JsonSchemaVersion.DRAFT_7), jsonschema.Draft7Validator, "#/definitions/", "definitions"),
                        "2019-09": (fn(tp, all_refs=all_refs, version=JsonSchemaVersion.DRAFT_2019_09), jsonschema.Draft201909Validator, "#/$defs/", "$defs")}
            custom = fn(tp, all_refs=all_refs, ref_factory=lambda n: "http://x/" + n)
        except Timeout:
            rep.violation(f"{label}: schema generation does not terminate (all_refs={all_refs})", {"type": label})
            continue
        except Exception as exc:
            rep.violation(f"{label}: schema generation raised {type(exc).__name__}: {exc} (all_refs={all_refs})", {"type": label})
            continue
        finally:
            signal.alarm(0)
        n += 1
        got = set(schema.get("$defs", {}))
        info = {"type": label, "direction": direction, "all_refs": all_refs, "schema": schema}
        if got != expected[all_refs]:
            rep.violation(f"{label} ({key}, all_refs={all_refs}): $defs = {sorted(got)} but the model of the counting pass "
                          f"extracts {sorted(expected[all_refs])}", info)
        try:
            jsonschema.Draft202012Validator.check_schema(schema)
        except jsonschema.SchemaError as err:
            rep.violation(f"{label}: not valid against the 2020-12 meta-schema: {err.message[:150]}", info)
        refs: List[str] = []
        collect_refs(schema, refs)
        for r in refs:
            if not r.startswith("#/$defs/") or r[len("#/$defs/"):] not in got:
                rep.violation(f"{label}: dangling or foreign reference {r}", info)
        if defs != schema.get("$defs", {}):
            rep.violation(f"{label}: definitions_schema differs from the inline $defs (all_refs={all_refs})",
                          dict(info, definitions_schema=defs))
        for vname, (vs, vcls, prefix, dkey) in variants.items():
            try:
                vcls.check_schema(vs)
            except jsonschema.SchemaError as err:
                rep.violation(f"{label}: {vname} output not valid against its own meta-schema: {err.message[:150]}",
                              dict(info, version=vname, converted=vs))
            vrefs: List[str] = []
            collect_refs(vs, vrefs)
            for r in vrefs:
                if not r.startswith(prefix) or r[len(prefix):] not in vs.get(dkey, {}):
                    rep.violation(f"{label}: {vname} output has dangling or foreign reference {r}", dict(info, version=vname, converted=vs))
        # an EXPLICIT all_refs wins over the default of the version (OpenAPI versions default to all_refs=True): the
        # named types referenced outside the definitions are the same in every dialect
        body_refs: List[str] = []
        collect_refs({k: v for k, v in schema.items() if k != "$defs"}, body_refs)
        want_names = {r[len("#/$defs/"):] for r in body_refs}
        for ver in (JsonSchemaVersion.OPEN_API_3_1, JsonSchemaVersion.OPEN_API_3_0):
            try:
                oas = fn(tp, all_refs=all_refs, version=ver)
                oas_defs = definitions_schema(**{key: [tp]}, all_refs=all_refs, version=ver)
            except Exception as exc:
                rep.violation(f"{label}: schema generation raised {type(exc).__name__}: {exc} (all_refs={all_refs}, OpenAPI)", {"type": label})
                continue
            orefs: List[str] = []
            collect_refs({k: v for k, v in oas.items() if k not in ("$defs", "definitions")}, orefs)
            got_names = {r.rsplit("/", 1)[-1] for r in orefs}
            if got_names != want_names or any(not r.startswith("#/components/schemas/") for r in orefs):
                rep.violation(f"{label} ({key}, all_refs={all_refs} given explicitly, OpenAPI): references {sorted(orefs)} but the draft 2020-12 "
                              f"schema of the same call references {sorted(want_names)}", dict(info, openapi=oas))
            if set(oas_defs) != expected[all_refs]:
                rep.violation(f"{label} ({key}, all_refs={all_refs} given explicitly, OpenAPI): definitions_schema = {sorted(oas_defs)} but the "
                              f"model of the counting pass extracts {sorted(expected[all_refs])}", dict(info, openapi_definitions=oas_defs))
        crefs: List[str] = []
        collect_refs(custom, crefs)
        if "$defs" in custom or any(not r.startswith("http://x/") for r in crefs):
            rep.violation(f"{label}: ref_factory not honoured ({crefs[:3]}, $defs present: {'$defs' in custom})", dict(info, custom=custom))
    return n


CLASH_SRC = '''
from dataclasses import dataclass
from typing import Annotated, Generic, List, Literal, NamedTuple, NewType, Optional, TypeVar, Union
from apischema import deserializer, discriminator, serializer, type_name

@type_name("Same")
@dataclass
class A:
    a: int

@type_name("Same")
@dataclass
class B:
    b: str

@dataclass
class Holder:
    x: A
    y: B
    xs: List[A]

# a named type built on top of another named type (nested Annotated aliases, each with its own type_name)
from apischema import schema as _schema
NInner = Annotated[int, _schema(min=0), type_name("NInner")]
NOuter = Annotated[NInner, _schema(max=10), type_name("NOuter")]

@dataclass
class InnerFirst:
    a: NInner
    b: NOuter
    c: List[NOuter]

@dataclass
class OuterOnly:
    b: NOuter
    c: List[NOuter]

@dataclass
class OuterOnce:
    b: NOuter

@type_name(None)
@dataclass
class Anon:
    v: int

@dataclass
class UsesAnon:
    p: Anon
    q: Anon

@type_name("Renamed")
@dataclass
class Orig:
    v: int

@dataclass
class UsesOrig:
    p: Orig
    q: List[Orig]

@dataclass
class Foo:
    a: int

@dataclass
class LegacyFoo:
    b: int

def to_legacy(foo: Foo) -> LegacyFoo:
    return LegacyFoo(foo.a)

IdA = Annotated[int, type_name("Id")]
IdB = Annotated[str, type_name("Id")]


@dataclass
class HolderIds:
    a: IdA
    b: IdB
    c: List[IdA]


T = TypeVar("T")


@type_name(lambda cls, *args: cls.__name__)
@dataclass
class Page(Generic[T]):
    item: T


@dataclass
class HolderPages:
    ints: Page[int]
    strs: Page[str]


@dataclass
class HolderSamePages:
    one: Page[int]
    two: List[Page[int]]


class Quantity:
    def __init__(self, v):
        self.v = v


@deserializer
def quantity_from_int(i: int) -> Quantity:
    return Quantity(i)


@deserializer
def quantity_from_str(s: str) -> Quantity:
    return Quantity(int(s))


class Maybe:
    pass


@serializer
def maybe_to_optional(m: Maybe) -> Optional[int]:
    return None


@dataclass
class Node:
    ident: int
    nxt: Optional["Node"] = None


class Edge(NamedTuple):
    src: Node
    dst: Node


def node_to_id(node: Node) -> int:
    return node.ident


@type_name("Ticket")
@dataclass
class TicketIn:
    title: str
    state: Literal["new", "open"]


@type_name("Ticket")
@dataclass
class TicketOut:
    title: str
    state: Literal["new", "open", "closed"]      # one more value: the enum LIST is longer on the read side


@type_name("Owner")
@dataclass
class OwnerIn:
    ident: Union[int, str]


@type_name("Owner")
@dataclass
class OwnerOut:
    ident: Union[int, str, None]                 # one more JSON type


@type_name("Same2")
@dataclass
class SameIn:
    v: List[int]


@type_name("Same2")
@dataclass
class SameOut:
    v: List[int]


@dataclass
class PCat:
    name: str


@dataclass
class PDog:
    name: str


@dataclass
class PetsOld:
    pet: Annotated[Union[PCat, PDog], discriminator("type")]


@dataclass
class PetsNew:
    pet: Annotated[PCat | PDog, discriminator("type")]


@type_name(lambda tp, *args: "Fac_" + tp.__name__)
@dataclass
class ByFactory:
    v: int

@dataclass
class UsesFactory:
    p: ByFactory
    q: ByFactory
'''


def naming_cases(rep: common.Report) -> int:
    """type_name overrides and the refusal of name clashes (python-side scenarios)."""
    from apischema.json_schema import deserialization_schema, serialization_schema

    ns: dict = {"__name__": "verifclash"}
    import sys
    import types

    mod = types.ModuleType("verifclash")
    sys.modules["verifclash"] = mod
    exec(compile(CLASH_SRC, "<verifclash>", "exec"), mod.__dict__)
    n = 0
    # definitions_schema over several entries (one with a conversion) = the union of the inline $defs of each entry
    from typing import List

    from apischema.json_schema import definitions_schema

    for entries in ([(mod.Foo, mod.to_legacy), List[mod.Foo]], [List[mod.Foo], (mod.Foo, mod.to_legacy)]):
        n += 1
        want: dict = {}
        for e in entries:
            if isinstance(e, tuple):
                want.update(serialization_schema(e[0], conversion=e[1], all_refs=True).get("$defs", {}))
            else:
                want.update(serialization_schema(e, all_refs=True).get("$defs", {}))
        got = definitions_schema(serialization=entries, all_refs=True)
        if got != want:
            rep.violation(f"definitions_schema(serialization={[getattr(e, '__name__', str(e)) for e in entries]}) = {sorted(got)} "
                          f"differs from the inline $defs of its entries {sorted(want)}", {"got": got, "want": want})
        refs: List[str] = []
        collect_refs(got, refs)
        for r in refs:
            if r[len("#/$defs/"):] not in got:
                rep.violation(f"definitions_schema(serialization=[(Foo, conv), List[Foo]]): dangling reference {r}", {"got": got})
    # conversions: a converted alternative that is itself multi-typed, merged into a union
    import jsonschema
    from typing import Optional, Union

    from apischema.json_schema import JsonSchemaVersion

    for label, fn, tp in (("deserialization_schema(Union[Quantity, str])", deserialization_schema, Union[mod.Quantity, str]),
                          ("serialization_schema(Optional[Maybe])", serialization_schema, Optional[mod.Maybe])):
        for version, vcls in ((JsonSchemaVersion.DRAFT_2020_12, jsonschema.Draft202012Validator),
                              (JsonSchemaVersion.DRAFT_2019_09, jsonschema.Draft201909Validator),
                              (JsonSchemaVersion.DRAFT_7, jsonschema.Draft7Validator)):
            n += 1
            schema = fn(tp, version=version)
            try:
                vcls.check_schema(schema)
            except jsonschema.SchemaError as err:
                rep.violation(f"{label}: not valid against its own meta-schema: {err.message[:150]}", {"schema": schema})
    # a dynamic conversion does not reach the fields of an object, NamedTuple included: the named
    # type of the fields is still extracted, and a recursive one does not make generation diverge
    for all_refs, want in ((True, {"Edge", "Node"}), (False, {"Node"})):
        for fn, key in ((serialization_schema, "serialization"), (deserialization_schema, "deserialization")):
            n += 1
            conv = mod.node_to_id if fn is serialization_schema else None
            signal.signal(signal.SIGALRM, _alarm)
            signal.alarm(20)
            try:
                got = set(fn(List[mod.Edge], conversion=conv, all_refs=all_refs).get("$defs", {}))
                dgot = set(definitions_schema(**{key: [(List[mod.Edge], conv)]}, all_refs=all_refs))
            except Timeout:
                rep.violation(f"{fn.__name__}(List[Edge], conversion=node_to_id): does not terminate", {})
                continue
            except RecursionError:
                rep.violation(f"{fn.__name__}(List[Edge], conversion=node_to_id, all_refs={all_refs}) raised RecursionError", {})
                continue
            finally:
                signal.alarm(0)
            if got != want or dgot != want:
                rep.violation(f"{fn.__name__}(List[Edge], conversion={'node_to_id' if conv else None}, all_refs={all_refs}): $defs = {sorted(got)} / "
                              f"definitions_schema = {sorted(dgot)}, expected {sorted(want)} (a dynamic conversion is local: it does not reach "
                              "the fields of the NamedTuple)", {})
    # one name for a deserialized and a serialized type: refused when the two schemas differ (even by the LENGTH of
    # a list only), merged when they are the same
    for d, s, clash in ((mod.TicketIn, mod.TicketOut, True), (mod.TicketOut, mod.TicketIn, True), (mod.OwnerIn, mod.OwnerOut, True),
                        (mod.OwnerOut, mod.OwnerIn, True), (mod.SameIn, mod.SameOut, False)):
        n += 1
        try:
            res = definitions_schema(deserialization=[d], serialization=[s], all_refs=True)
            if clash:
                rep.violation(f"definitions_schema(deserialization=[{d.__name__}], serialization=[{s.__name__}]): two different schemas "
                              f"under one name were merged instead of refused", {"schema": res})
        except (ValueError, TypeError):      # the refusal is a TypeError naming the reference
            if not clash:
                rep.violation(f"definitions_schema(deserialization=[{d.__name__}], serialization=[{s.__name__}]): the same schema under "
                              "one name on both sides was refused", {})
        except Exception as exc:
            rep.violation(f"definitions_schema(deserialization=[{d.__name__}], serialization=[{s.__name__}]) raised {type(exc).__name__}", {})
    # `X | Y` is the same union as Union[X, Y]: same schema, same (closed) definitions
    for fn in (deserialization_schema, serialization_schema):
        for all_refs in (False, True):
            n += 1
            try:
                old, new = fn(mod.PetsOld, all_refs=all_refs), fn(mod.PetsNew, all_refs=all_refs)
            except Exception as exc:
                rep.violation(f"{fn.__name__}(PetsNew / PetsOld, all_refs={all_refs}) raised {type(exc).__name__}: {exc}", {})
                continue
            strip = lambda sch: json.loads(json.dumps(sch).replace("PetsNew", "Pets").replace("PetsOld", "Pets"))
            refs = []
            collect_refs(new, refs)
            for r in refs:
                if r[len("#/$defs/"):] not in new.get("$defs", {}):
                    rep.violation(f"{fn.__name__}(PetsNew, all_refs={all_refs}): dangling reference {r} (PEP 604 discriminated union)", {"schema": new})
            if strip(old) != strip(new):
                rep.violation(f"{fn.__name__}: Annotated[PCat | PDog, discriminator] and Annotated[Union[PCat, PDog], discriminator] give "
                              f"different schemas (all_refs={all_refs})", {"union": old, "pep604": new})
    for fn in (deserialization_schema, serialization_schema):
        # two distinct types under one name are refused: unrelated classes, two Annotated aliases over different
        # types, two parametrisations of one generic class
        for holder, what in ((mod.Holder, "classes A and B named 'Same'"), (mod.HolderIds, "Annotated[int] and Annotated[str] named 'Id'"),
                             (mod.HolderPages, "Page[int] and Page[str] named 'Page'")):
            n += 1
            try:
                res = fn(holder)
                rep.violation(f"{fn.__name__}: two distinct types sharing a name ({what}) were merged instead of refused", {"schema": res})
            except ValueError:
                pass
            except Exception as exc:
                rep.violation(f"{fn.__name__}: name clash ({what}) raised {type(exc).__name__} instead of a refusal (ValueError)", {})
        # ... while the SAME parametrisation used twice is one definition
        n += 1
        try:
            got = set(fn(mod.HolderSamePages).get("$defs", {}))
            if got != {"Page"}:
                rep.violation(f"{fn.__name__}(HolderSamePages): $defs = {sorted(got)}, expected ['Page']", {})
        except Exception as exc:
            rep.violation(f"{fn.__name__}(HolderSamePages) raised {type(exc).__name__}: {exc}", {})
        # nested named aliases: all_refs=True extracts every named type; all_refs=False those used more than once
        # (NInner is used once by the definition of NOuter, plus once per direct use)
        for tp, want_f, want_t in ((mod.InnerFirst, {"NInner", "NOuter"}, {"InnerFirst", "NInner", "NOuter"}),
                                   (mod.OuterOnly, {"NOuter"}, {"OuterOnly", "NInner", "NOuter"}),
                                   (mod.OuterOnce, set(), {"OuterOnce", "NInner", "NOuter"})):
            for all_refs, want in ((False, want_f), (True, want_t)):
                n += 1
                try:
                    sch = fn(tp, all_refs=all_refs)
                except Exception as exc:
                    rep.violation(f"{fn.__name__}({tp.__name__}, all_refs={all_refs}) raised {type(exc).__name__}: {exc}", {})
                    continue
                got = set(sch.get("$defs", {}))
                refs2: List[str] = []
                collect_refs(sch, refs2)
                if got != want or any(r[len("#/$defs/"):] not in got for r in refs2):
                    rep.violation(f"{fn.__name__}({tp.__name__}, all_refs={all_refs}): $defs = {sorted(got)}, references {sorted(set(refs2))}; nested named "
                                  f"aliases NOuter over NInner must give {sorted(want)}", {"schema": sch})
        for tp, want in ((mod.UsesAnon, set()), (mod.UsesOrig, {"Renamed"}), (mod.UsesFactory, {"Fac_ByFactory"})):
            n += 1
            got = set(fn(tp).get("$defs", {}))
            if got != want:
                rep.violation(f"{fn.__name__}({tp.__name__}): $defs = {sorted(got)}, expected {sorted(want)} (type_name override)", {})
    return n


def main() -> int:
    import apischema.cache

    rep = common.Report("C17", "model_checking")
    thorough = common.tier() == "thorough"
    rep.assumptions = ["structure of the schema BODY is not compared (acceptance is C06's business): names, closure, meta-schema validity, "
                       "definitions_schema equality, ref_factory, termination",
                       "jsonschema's meta-schemas for drafts 2020-12, 2019-09 and 07"]
    states = trans = n = 0
    distinct = set()
    for t in (["d1", "d2", "u"] if thorough else ["d1", "d2"]):
        res = tlc.run_tlc("MC_Refs", CFG % t, workers=8, env={"EMIT": "1"}, timeout_s=3000)
        states += res.distinct
        trans += res.states
        if res.violated:
            rep.violation(f"TLC: {res.violated} violated by the model of the counting pass (tier {t})", {"tlc": res.error_trace[:40]})
            continue
        header, cases = replay_deser.parse_emitted(res.prints)
        u = replay_deser.Universe(header, [c["type"] for c in cases])
        last = None
        for c in sorted(cases, key=lambda c: json.dumps(c["type"], sort_keys=True)):
            tkey = json.dumps(c["type"], sort_keys=True)
            if tkey != last:
                apischema.cache.reset()
                replay_deser.clear_typing_caches()
                u._types.clear()
                last = tkey
            tp = u.type(c["type"])
            n += check_one(rep, bridge.type_expr(c["type"]), tp, {False: set(c["refs"]), True: set(c["all_refs"])}, c["dir"])
            distinct.add(json.dumps([c["type"], c["dir"], sorted(c["refs"]), sorted(c["all_refs"])]))
            if n % 701 == 1:
                rep.sample({"type": bridge.type_expr(c["type"]), "dir": c["dir"], "refs": c["refs"], "all_refs": c["all_refs"]})
        bridge.cleanup_gen_dir()
    n += naming_cases(rep)
    rep.set("states", states)
    rep.set("transitions", trans)
    rep.set("traces_validated_against_impl", n)
    rep.set("evaluations", n)
    rep.set("distinct_nontrivial", len(distinct))
    rep.set("rule", "distinct (type, direction, extracted names) triples; each checked for both all_refs values, three dialects and a custom ref_factory")
    return rep.finish()


def replay(path: str) -> int:
    print(json.dumps(json.load(open(path)), indent=1)[:5000])
    return 1
