"""Recording real apischema calls as events (the public call's return is the linearisation
point of this sequential library; the error path is logged too)."""
from __future__ import annotations

import copy
import json
from typing import Any, Dict, List, Optional

from . import bridge


def fingerprint(x: Any, depth: int = 0) -> Any:
    """Deep structural fingerprint (type names + values) used to detect input mutation."""
    if depth > 250:
        return "deep"
    if isinstance(x, dict):
        return ("dict", type(x).__name__, tuple((repr(k), fingerprint(v, depth + 1)) for k, v in x.items()))
    if isinstance(x, (list, tuple, set, frozenset)):
        seq = x if isinstance(x, (list, tuple)) else sorted(x, key=repr)
        return (type(x).__name__, tuple(fingerprint(v, depth + 1) for v in seq))
    return (type(x).__name__, repr(x))


def container_ids(x: Any, acc: Optional[set] = None) -> set:
    acc = set() if acc is None else acc
    if isinstance(x, (list, dict, set)):
        if id(x) in acc:
            return acc
        acc.add(id(x))
        for v in (x.values() if isinstance(x, dict) else x):
            container_ids(v, acc)
    elif isinstance(x, (tuple, frozenset)):
        for v in x:
            container_ids(v, acc)
    elif hasattr(x, "__dict__") and not isinstance(x, type):
        for v in vars(x).values():
            container_ids(v, acc)
    return acc


def run_deserialize(ctx: bridge.Ctx, tp: Any, data: Any, kwargs: dict, method: bool = False) -> dict:
    """One real call; returns the `out` record of the event.  With `method`, the precomputed
    deserialization_method(...) is called instead of deserialize."""
    from apischema import ValidationError, deserialize

    if method:
        from apischema import deserialization_method

        def deserialize(tp_, data_, **kw):  # noqa: F811
            return deserialization_method(tp_, **kw)(data_)

    before = fingerprint(data)
    in_ids = container_ids(data)
    try:
        res = deserialize(tp, data, **kwargs)
    except ValidationError as err:
        try:
            errors = err.errors
            json.dumps(errors)
            out = {"kind": "verr", "v": {"k": "null"}, "errs": bridge.enc_errors(errors),
                   "order_ok": bridge.errors_order_ok(errors), "exc": ""}
        except Exception as exc2:  # errors not computable / not JSON-serialisable (C03)
            out = {"kind": "exc", "v": {"k": "null"}, "errs": [], "order_ok": True,
                   "exc": "errors:" + type(exc2).__name__}
    except RecursionError:
        out = {"kind": "exc", "v": {"k": "null"}, "errs": [], "order_ok": True, "exc": "RecursionError"}
    except Exception as exc:
        out = {"kind": "exc", "v": {"k": "null"}, "errs": [], "order_ok": True,
               "exc": type(exc).__name__}
    else:
        try:
            v = ctx.enc_value(res)
            if has_foreign(v):
                v = {"k": "unencodable"}
        except bridge.Unencodable:
            v = {"k": "unencodable"}
        out = {"kind": "ok", "v": v, "errs": [], "order_ok": True, "exc": "",
               "shares": bool(in_ids & container_ids(res))}
    out.setdefault("shares", False)
    out["mutated"] = fingerprint(data) != before
    return out


def has_foreign(v: Any) -> bool:
    if isinstance(v, dict):
        if v.get("k") == "foreign":
            return True
        return any(has_foreign(x) for x in v.values())
    if isinstance(v, list):
        return any(has_foreign(x) for x in v)
    return False
