#!/bin/sh
# Offline setup: vendor jsonschema for /venv's python (used by the schema properties) and
# syntax-check every specification module.
set -e
cd "$(dirname "$0")"
if [ ! -d .pydeps/jsonschema ]; then
  /venv/bin/pip install -q --no-index --find-links /opt/veriftools/wheels --target .pydeps jsonschema
fi
tmp=$(mktemp -d)
cp spec/*.tla spec/mc/*.tla spec/trace/*.tla "$tmp"/ 2>/dev/null || true
# sample instances of the modules generated at run time (type graphs, cache pool constants)
PYTHONPATH=/repo /venv/bin/python harness/gen_stubs.py "$tmp"
for f in "$tmp"/*.tla; do
  (cd "$tmp" && tla-sany "$(basename "$f")" >/dev/null 2>&1) || { echo "SANY failed on $f"; (cd "$tmp" && tla-sany "$(basename "$f")" | tail -20); rm -rf "$tmp"; exit 1; }
done
rm -rf "$tmp"
echo "setup ok"
