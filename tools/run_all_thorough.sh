#!/bin/sh
# every registered check, thorough tier, one line per property
cd /verif
for p in ${@:-C01 C02 C03 C04 C05 C06 C07 C08 C09 C10 C11 C12 C13 C14 C15 C16 C17 C18 C19 C20}; do
  s=$(date +%s); timeout 7200 ./check $p --tier thorough > /tmp/runthor_$p.out 2>&1; rc=$?; e=$(date +%s)
  echo "$p exit=$rc $((e-s))s violations=$(grep -c '^VIOLATION' /tmp/runthor_$p.out) known=$(grep -c '^KNOWN-FINDING' /tmp/runthor_$p.out)"
done
