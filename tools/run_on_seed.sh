#!/bin/sh
# run_on_seed.sh <patch.diff> <Cxx> [tier]: apply the seeded change to /repo, run the check, undo it.
p=$1; prop=$2; tier=${3:-quick}
git -C /repo apply "$p" || { echo "patch does not apply to /repo"; exit 3; }
cd /verif && VERIF_EVIDENCE_DIR=/tmp/seed_evidence ./check "$prop" --tier "$tier" > /tmp/seedrun.out 2>&1; rc=$?
git -C /repo checkout -- .
grep -c "^VIOLATION" /tmp/seedrun.out | sed 's/^/violations printed: /'
grep -m3 -A1 "^VIOLATION" /tmp/seedrun.out | cut -c1-400
echo "check exit=$rc"
