#!/bin/sh
# verify_seed.sh <seed dir with patch.diff + demo.py> : confirms, in a scratch worktree, that the
# patch applies, the repo suite passes with it, and the demo fails with it / passes without it.
set -u
d=$1
wt=$(mktemp -d /tmp/vswt.XXXXXX)
rmdir "$wt"
git -C /repo worktree add -q --detach "$wt" HEAD || exit 2
cd "$wt"
echo "== demo on clean tree"; PYTHONPATH="$wt" timeout 300 /venv/bin/python "$d/demo.py" >/tmp/vs_clean.out 2>&1; c0=$?; tail -2 /tmp/vs_clean.out
if ! git apply "$d/patch.diff"; then echo "PATCH DOES NOT APPLY"; git -C /repo worktree remove --force "$wt"; exit 3; fi
echo "== suite with patch"; PYTHONPATH="$wt" /venv/bin/python -m pytest -q -p no:cacheprovider --timeout=900 -x 2>&1 | tail -1
echo "== demo with patch"; PYTHONPATH="$wt" timeout 300 /venv/bin/python "$d/demo.py" >/tmp/vs_mut.out 2>&1; c1=$?; tail -3 /tmp/vs_mut.out
echo "clean_exit=$c0 mutated_exit=$c1"
cd /; git -C /repo worktree remove --force "$wt"
