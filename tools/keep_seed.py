#!/usr/bin/env python3
"""keep_seed.py <seed id> <src dir> <property> <needs> <detected: yes|no> <by what>  -> /verif/seeded/<id>/"""
import json, os, shutil, sys
sid, src, prop, needs, detected, by = sys.argv[1:7]
dst = f"/verif/seeded/{sid}"
os.makedirs(dst, exist_ok=True)
for f in ("patch.diff", "demo.py", "notes.md"):
    if os.path.exists(os.path.join(src, f)):
        shutil.copy(os.path.join(src, f), dst)
meta = {
    "id": sid, "property": prop, "needs_to_manifest": needs,
    "confirmed": "tools/verify_seed.sh: patch applies to /repo HEAD, 283 tests pass with it, demo.py exits 0 on the "
                 "clean tree and non-zero with the patch (scratch worktree, removed afterwards)",
    "ran": f"tools/run_on_seed.sh seeded/{sid}/patch.diff {prop}",
    "detected_by_check": detected == "yes", "detected_how": by,
}
json.dump(meta, open(os.path.join(dst, "meta.json"), "w"), indent=1)
print("kept", dst)
