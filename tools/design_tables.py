#!/usr/bin/env python3
"""Regenerates the generated parts of DESIGN.md (between <!-- gen:X --> and <!-- /gen:X --> markers):
the list of known findings, the number of fix: commits, the table of kept seeded changes."""
import glob
import json
import re

P = "/verif/DESIGN.md"
s = open(P).read()
k = json.load(open("/verif/known_findings.json"))
seeds = [json.load(open(d + "/meta.json")) for d in sorted(glob.glob("/verif/seeded/*"))]


def sub(tag, body):
    global s
    pat = re.compile(r"<!-- gen:%s -->.*?<!-- /gen:%s -->" % (tag, tag), re.S)
    assert pat.search(s), tag
    s = pat.sub(lambda m: "<!-- gen:%s -->\n%s\n<!-- /gen:%s -->" % (tag, body, tag), s)


def short(t, n):
    return t if len(t) <= n else t[:n].rsplit(" ", 1)[0] + " ..."


sub("findings", "\n".join(
    f"* `{f['id']}` ({', '.join(f['properties'])}): {short(f['what'], 300)} *Why not fixed:* {f['why_not_fixed']}" for f in k["findings"]))
byprop = {}
for line in k["fixed"]:
    m = re.match(r"fixed: property=(C\d+) (\w+) (.*)", line)
    byprop.setdefault(m.group(1), []).append((m.group(2), m.group(3)))
sub("fixes", f"{len(k['fixed'])} defects were repaired by minimal unguarded `fix:` commits in /repo (unedited suite re-run, 283 passed, "
    "after each). By the property whose check exposed them:\n\n| property | commits | what failed (first words) |\n|---|---|---|\n" +
    "\n".join(f"| {p} | {' '.join(h for h, _ in v)} | " + " / ".join(short(w, 70) for _, w in v[:4]) + (" / ..." if len(v) > 4 else "") + " |"
              for p, v in sorted(byprop.items())))
sub("seeds", f"{len(seeds)} kept changes, all detected.\n\n| seed | needs to manifest | caught by |\n|---|---|---|\n" +
    "\n".join(f"| `{m['id']}` | {m['needs_to_manifest']} | {m['detected_how']} |" for m in seeds))
open(P, "w").write(s)
print("DESIGN.md tables regenerated:", len(k["findings"]), "findings,", len(k["fixed"]), "fixes,", len(seeds), "seeds")
