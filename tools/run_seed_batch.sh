#!/bin/sh
# run_seed_batch.sh <root dir> <Cxx>... : every <root>/<Cxx>-out/m{1,2}/patch.diff against the check of <Cxx>
root=$1; shift
for p in "$@"; do for m in m1 m2; do
  f=$root/$p-out/$m/patch.diff
  [ -f "$f" ] || continue
  out=$(/verif/tools/run_on_seed.sh "$f" "$p" 2>&1)
  echo "### $p $m: $(echo "$out" | grep 'check exit') ; $(echo "$out" | grep -m1 -A1 '^VIOLATION' | tail -1 | cut -c1-260)"
done; done
git -C /repo status --short | head -3
