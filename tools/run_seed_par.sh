#!/bin/sh
# run_seed_par.sh <root> <Cxx> : m1, m2 of <root>/<Cxx>-out against the check of <Cxx>, in a private copy of /verif and the
# scratch worktree <root>/<Cxx>-wt (VERIF_REPO), so that several properties can be tried at once without touching /repo.
root=$1; p=$2; chk=${3:-$p}
wt=$root/$p-wt; vc=$root/vc-$p
rm -rf "$vc"; mkdir -p "$vc"
rsync -a --exclude .git --exclude seeded --exclude 'evidence/replays' /verif/ "$vc"/
git -C "$wt" checkout -q -- . ; git -C "$wt" clean -fdq
for m in m1 m2; do
  f=$root/$p-out/$m/patch.diff
  [ -f "$f" ] || continue
  git -C "$wt" apply "$f" || { echo "### $p $m: patch does not apply"; continue; }
  (cd "$vc" && VERIF_REPO=$wt ./check "$chk" --tier quick > "$root/$p-$m.run" 2>&1); rc=$?
  git -C "$wt" checkout -q -- . ; git -C "$wt" clean -fdq
  echo "### $p $m [$chk]: exit=$rc ; $(grep -m1 -A1 '^VIOLATION' "$root/$p-$m.run" | tail -1 | cut -c1-260)"
done
rm -rf "$vc"
