#!/bin/sh
# seed_proc.sh <root> <Cxx> [check] : for m1, m2 under <root>/<Cxx>-out: verify the change in the scratch worktree
# <root>/<Cxx>-wt (patch applies, suite passes with it, demo passes without / fails with it), then run the check of
# <check> (default <Cxx>) from a private copy of /verif's HEAD against that worktree (VERIF_REPO). Never touches /repo.
root=$1; p=$2; chk=${3:-$p}
wt=$root/$p-wt; vc=$root/vc-$p-$chk
rm -rf "$vc"; mkdir -p "$vc"
git -C /verif archive HEAD | tar -x -C "$vc"
ln -s /verif/.pydeps "$vc/.pydeps"
git -C "$wt" checkout -q -- . ; git -C "$wt" clean -fdq
for m in m1 m2; do
  d=$root/$p-out/$m
  [ -f "$d/patch.diff" ] || { echo "### $p $m: no patch"; continue; }
  (cd "$wt" && PYTHONPATH="$wt" timeout 600 /venv/bin/python "$d/demo.py" >"$root/$p-$m.clean" 2>&1); c0=$?
  git -C "$wt" apply "$d/patch.diff" || { echo "### $p $m: patch does not apply"; continue; }
  suite=$(cd "$wt" && PYTHONPATH="$wt" /venv/bin/python -m pytest -q -p no:cacheprovider --timeout=900 2>&1 | tail -1)
  (cd "$wt" && PYTHONPATH="$wt" timeout 600 /venv/bin/python "$d/demo.py" >"$root/$p-$m.mut" 2>&1); c1=$?
  (cd "$vc" && VERIF_REPO=$wt ./check "$chk" --tier quick > "$root/$p-$m-$chk.run" 2>&1); rc=$?
  git -C "$wt" checkout -q -- . ; git -C "$wt" clean -fdq
  echo "### $p $m [$chk]: demo clean=$c0 mutated=$c1 ; suite: $suite ; check exit=$rc ; $(grep -m1 -A1 '^VIOLATION' "$root/$p-$m-$chk.run" | tail -1 | cut -c1-300)"
done
rm -rf "$vc"
