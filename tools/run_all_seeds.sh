#!/bin/sh
# run_all_seeds.sh : every kept seeded change against the check that is recorded as detecting it
cd /verif
for d in seeded/*/; do
  id=$(basename $d)
  prop=$(python3 -c "import json,re,sys; m=json.load(open('$d/meta.json')); h=m['detected_how']; x=re.search(r'NOT by the C\d+ check.*?detected by the (C\d+) check', h); print(x.group(1) if x else m['property'])")
  out=$(tools/run_on_seed.sh /verif/$d/patch.diff $prop 2>&1 | tail -1)
  echo "$id [$prop] $out"
done
git -C /repo status --short | head -3
