------------------------------ MODULE FieldsSet -----------------------------
(***************************************************************************)
(* C15 -- field-set tracking of classes decorated with with_fields_set.    *)
(*                                                                         *)
(* State: one instance and its tracked set `fs`.  Actions mirror the code  *)
(* paths of apischema/fields.py and apischema/dataclasses.py:              *)
(*   ConstructPos(k) cls(v1, .., vk): the same through positional arguments *)
(*   Construct(G)   cls(G...): patched __new__  (fs := {}), then patched     *)
(*                  __init__ (fs := given - InitVars + always-set fields)  *)
(*   Deser(K)       deserialize(cls, {k: .. for k in K}) = Construct(K)    *)
(*   SetAttr(a)     obj.a = v        (patched __setattr__)                 *)
(*   SetFields(F,o) set_fields(obj, *F, overwrite=o)                       *)
(*   Unset(F)       unset_fields(obj, *F)                                  *)
(*   Replace(C)     apischema.dataclasses.replace(obj, C...)              *)
(* and the observations fields_set(obj) and the keys of serialize(obj)     *)
(* with exclude_unset = TRUE / FALSE.                                      *)
(*                                                                         *)
(* A class shape == [fields : Seq([name, kind, das, req, owner]),          *)
(*                   deco   : [base : BOOLEAN, sub : BOOLEAN], hasSub]     *)
(*   kind  \in {"normal", "initvar", "noinit", "flat"};  das = default_as_set      *)
(*   owner \in {"base", "sub"}: the class declaring the field              *)
(* An UNDECORATED dataclass subclass of a decorated class defines its own  *)
(* __init__, which assigns every field through the inherited patched       *)
(* __setattr__: the documentation leaves that case open, the model states  *)
(* a sandwich  provided \subseteq fs \subseteq all stored fields (exact = FALSE).*)
(***************************************************************************)
EXTENDS Naturals, Sequences, FiniteSets, TLC

CONSTANTS Shapes,     \* set of class shapes
          MaxOps,     \* bound on the number of operations after construction
          ShareOnReplace   \* deviation (a seeded change): replace() hands the ORIGINAL's set object to the copy

VARIABLES shape, fs, lo, alive, hist, orig
vars == <<shape, fs, lo, alive, hist, orig>>
\* orig: the instance replace() was last called on, which stays reachable by the caller: [has, fs, lo];
\* replace() returns a NEW instance, so nothing done to the copy (nor replace itself) may change it
\* fs: the tracked set when it is exactly determined; lo: a lower bound always valid
\* (for the sandwich case fs is the UPPER bound and lo the lower one)

Names(s)    == {s.fields[i].name : i \in DOMAIN s.fields}
ByKind(s,k) == {s.fields[i].name : i \in {j \in DOMAIN s.fields : s.fields[j].kind = k}}
InitVars(s) == ByKind(s, "initvar")
NoInit(s)   == ByKind(s, "noinit")
\* aggregate (flattened) fields: deserialization always builds them, from whichever of their keys are present
Flat(s)     == ByKind(s, "flat")
Stored(s)   == Names(s) \ InitVars(s)                 \* attributes of the instance
InitArgs(s) == Names(s) \ NoInit(s)                   \* constructor parameters
Required(s) == {s.fields[i].name : i \in {j \in DOMAIN s.fields : s.fields[j].req}}
\* fields always in the set after __init__: init=False and default_as_set fields ... of the
\* class whose __init__ was patched (the most derived DECORATED class)
AlwaysSet(s) ==
  LET mine(f) == IF s.hasSub /\ ~s.deco.sub THEN f.owner = "base" ELSE TRUE IN
  {s.fields[i].name : i \in {j \in DOMAIN s.fields :
        (s.fields[j].kind = "noinit" \/ s.fields[j].das) /\ mine(s.fields[j])}}
\* is the tracked set exactly determined by the documentation?
Exact(s) == ~(s.hasSub /\ s.deco.base /\ ~s.deco.sub)
Tracked(s) == s.deco.sub \/ (s.hasSub /\ s.deco.base) \/ (~s.hasSub /\ s.deco.base)

Init == /\ shape \in Shapes
        /\ fs = {} /\ lo = {} /\ alive = FALSE /\ hist = <<>>
        /\ orig = [has |-> FALSE, fs |-> {}, lo |-> {}]

Log(op) == hist' = Append(hist, op)

AfterInit(s, given) == (given \ InitVars(s)) \cup AlwaysSet(s)

Construct(G) ==
  /\ ~alive /\ G \subseteq InitArgs(shape) /\ Required(shape) \subseteq G
  /\ IF Exact(shape) THEN fs' = AfterInit(shape, G) /\ lo' = fs'
     ELSE fs' = Stored(shape) /\ lo' = G \ InitVars(shape)
  /\ alive' = TRUE /\ UNCHANGED <<shape, orig>>
  /\ Log([op |-> "construct", names |-> G])

\* positional construction cls(v1, .., vk): the first k parameters of __init__ in signature order
\* (InitVar pseudo-fields keep their place in the signature, init=False fields are not parameters)
InitSeq(s) == SelectSeq(s.fields, LAMBDA f : f.kind # "noinit")
ConstructPos(k) ==
  LET G == {InitSeq(shape)[i].name : i \in 1..k} IN
  /\ ~alive /\ k \in 1..Len(InitSeq(shape)) /\ Required(shape) \subseteq G
  /\ IF Exact(shape) THEN fs' = AfterInit(shape, G) /\ lo' = fs'
     ELSE fs' = Stored(shape) /\ lo' = G \ InitVars(shape)
  /\ alive' = TRUE /\ UNCHANGED <<shape, orig>>
  /\ Log([op |-> "construct_pos", names |-> G])

Deser(K) ==
  /\ ~alive /\ K \subseteq InitArgs(shape) /\ Required(shape) \subseteq K
  /\ IF Exact(shape) THEN fs' = AfterInit(shape, K \cup Flat(shape)) /\ lo' = fs'
     ELSE fs' = Stored(shape) /\ lo' = (K \cup Flat(shape)) \ InitVars(shape)
  /\ alive' = TRUE /\ UNCHANGED <<shape, orig>>
  /\ Log([op |-> "deserialize", names |-> K])

\* operations on the current instance leave the original alone -- unless (deviation) both hold one set object
OrigFollows(nfs, nlo) ==
  IF ShareOnReplace /\ orig.has /\ "shared" \in DOMAIN orig
  THEN orig' = [orig EXCEPT !.fs = nfs, !.lo = nlo] ELSE UNCHANGED orig

SetAttr(a) ==
  /\ alive /\ Len(hist) <= MaxOps /\ a \in Stored(shape)
  /\ fs' = fs \cup {a} /\ lo' = lo \cup {a}
  /\ OrigFollows(fs', lo')
  /\ UNCHANGED <<shape, alive>> /\ Log([op |-> "setattr", names |-> {a}])

SetFields(F, ow) ==
  /\ alive /\ Len(hist) <= MaxOps /\ F \subseteq Stored(shape)
  /\ fs' = (IF ow THEN {} ELSE fs) \cup F /\ lo' = (IF ow THEN {} ELSE lo) \cup F
  \* set_fields(overwrite=True) REBINDS the attribute to a new set: a shared set object is left behind
  /\ IF ow THEN UNCHANGED orig ELSE OrigFollows(fs', lo')
  /\ UNCHANGED <<shape, alive>> /\ Log([op |-> IF ow THEN "set_fields_overwrite" ELSE "set_fields", names |-> F])

Unset(F) ==
  /\ alive /\ Len(hist) <= MaxOps /\ F \subseteq Stored(shape) /\ F # {}
  /\ fs' = fs \ F /\ lo' = lo \ F
  /\ OrigFollows(fs', lo')
  /\ UNCHANGED <<shape, alive>> /\ Log([op |-> "unset_fields", names |-> F])

\* replace() builds a new instance through __init__ and then OVERWRITES its set with the
\* former set plus the changed fields; an InitVar may be given too, it is not a field
Replace(C) ==
  /\ alive /\ Len(hist) <= MaxOps /\ C \subseteq InitArgs(shape) /\ C # {}
  /\ fs' = fs \cup (C \ InitVars(shape)) /\ lo' = lo \cup (C \ InitVars(shape))
  \* the instance it was called on keeps its own set (deviation: the copy received that very set object,
  \* so the changed fields were added to the original's set as well)
  /\ orig' = IF ShareOnReplace THEN [has |-> TRUE, fs |-> fs', lo |-> lo', shared |-> TRUE]
             ELSE [has |-> TRUE, fs |-> fs, lo |-> lo]
  /\ UNCHANGED <<shape, alive>> /\ Log([op |-> "replace", names |-> C])

Next == \/ \E G \in SUBSET Names(shape) : Construct(G) \/ Deser(G)
        \/ \E k \in 1..Len(shape.fields) : ConstructPos(k)
        \/ \E a \in Names(shape) : SetAttr(a)
        \/ \E F \in SUBSET Names(shape) : \E ow \in BOOLEAN : SetFields(F, ow)
        \/ \E F \in SUBSET Names(shape) : Unset(F) \/ Replace(F)
Spec == Init /\ [][Next]_vars
View == <<shape, fs, lo, alive, orig>>

---------------------------------------------------------------------------
\* what the observations must return in the current state
SerFields(s)  == Stored(s)
KeysUnset     == fs \cap SerFields(shape)          \* serialize(obj)  (exclude_unset=True)
KeysAll       == SerFields(shape)                  \* serialize(obj, exclude_unset=False)

\* ---- laws TLC checks on the model
TypeOK        == lo \subseteq fs /\ fs \subseteq Stored(shape)
ExactCollapse == Exact(shape) => lo = fs
\* after deserialize(T, d): exactly the keys present + default_as_set + init=False fields (C15),
\* so serialize(deserialize(d)) emits d's keys plus those (the dual round trip of C05)
DeserLaw ==
  (alive /\ Len(hist) = 1 /\ hist[1].op = "deserialize" /\ Exact(shape)) =>
      fs = (hist[1].names \ InitVars(shape)) \cup AlwaysSet(shape) \cup Flat(shape)   \* aggregates are always built
\* exclude_unset never emits an untracked field, exclude_unset=False emits everything
ExcludeUnsetSound == KeysUnset \subseteq KeysAll
\* replace() returns a new instance: whatever happens next, the instance it was called on keeps the set it had
\* (orig is only ever assigned by Replace, to the set of the instance replace was called on)
OrigFrozen == [][orig.has => (orig' = orig \/ (orig'.fs = fs /\ orig'.lo = lo /\ Len(hist') = Len(hist) + 1 /\ hist'[Len(hist')].op = "replace"))]_vars
=============================================================================
