----------------------------- MODULE Conversions -----------------------------
(***************************************************************************)
(* C12 -- conversions compose: a converted type behaves as its source /    *)
(* target.                                                                 *)
(*                                                                         *)
(* Converters are UNINTERPRETED wrappers, so that the result of a          *)
(* (de)serialization shows which converters were composed, in which order, *)
(* on which intermediate value:                                            *)
(*   a deserializer  f : S -> K   builds  [k|->"opq", cls|->K, by|->f, v]  *)
(*                   and raises ValueError on the payloads of  f.bad       *)
(*   a serializer    g : K -> U   unwraps the payload into a value of U    *)
(*                   (GApply), the target types being pairwise distinct    *)
(*                                                                         *)
(* Layer M transcribes the resolution of apischema.conversions.visitor:    *)
(*   visit(tp):  dynamic conversion first (_has_conversion on the current  *)
(*   conversion), else the default one (registry / default_conversion      *)
(*   parameter); the dynamic conversion survives only through containers   *)
(*   and unions (next_conversion) and is replaced by the sub-conversion    *)
(*   below an applied conversion and by the FIELD conversion in objects.   *)
(* PlainD / PlainS give the converted-away type (what the JSON schema      *)
(* describes), VD / VS the value semantics.                                *)
(* Layer R are the laws of the property, stated as invariants in           *)
(* MC_Conv.tla (RejectsAsSource, IdentityBypasses, DynamicIsLocal,         *)
(* ContainersReach, SerializersInherited, FieldConversionOnlyThere).       *)
(*                                                                         *)
(* Deviations (negative checks / pinned-tree defects):                     *)
(*   "catchwide"   a catch_value_error converter also catches ValueError   *)
(*                 raised while deserializing its SOURCE   (seeded shape)  *)
(*   "inhtruthy"   inherited=None treated as not inherited (seeded shape)  *)
(*   "lazyfuncnotinh"  a serializer registered lazily as a bare function   *)
(*                 is not inherited (LazyConversion.inherited)             *)
(*   "nonlocal"    the dynamic conversion reaches object fields            *)
(***************************************************************************)
EXTENDS Values

CONSTANTS Deviations

\* ---- types
TInt      == [k |-> "int"]
TStr      == [k |-> "str"]
TNone     == [k |-> "none"]
TList(e)  == [k |-> "list", e |-> e]
TDict(e)  == [k |-> "dict", e |-> e]
TTup(es)  == [k |-> "tuple", es |-> es]
TUni(as)  == [k |-> "union", alts |-> as]
TOpt(e)   == TUni(<<e, TNone>>)
TCls(n)   == [k |-> "cls", n |-> n]
\* collections.deque: a COLLECTION class with its own (standard, generic) conversion from / to List[e]
TDeque(e) == [k |-> "deque", e |-> e]
TVar      == [k |-> "tvar"]
TUnsup    == [k |-> "unsup"]

Opq(c, by, v) == [k |-> "opq", cls |-> c, by |-> by, v |-> v]

\* ---- conversions
\* [id, src, tgt, catch, bad : set of payloads raising ValueError, sub : Seq(conv), inh, form]
Cv(id, s, t, catch, bad, sub, inh, form) ==
  [id |-> id, src |-> s, tgt |-> t, catch |-> catch, bad |-> bad, sub |-> sub, inh |-> inh, form |-> form]
IdAll     == Cv("identity", TVar, TVar, FALSE, {}, <<>>, "none", "obj")     \* apischema.identity
IdOf(T)   == Cv("identity", T, T, FALSE, {}, <<>>, "none", "obj")           \* Conversion(identity, T, T)
IsIdentity(c) == c.id = "identity" /\ c.src = c.tgt /\ c.sub = <<>>
\* handle_identity_conversion
Norm(c, T) == IF IsIdentity(c) /\ c.src.k = "tvar" THEN [c EXCEPT !.src = T, !.tgt = T] ELSE c

\* ---- environment  E == [ct, regD, regS, via]
\*   ct[name] == [kind : "opq" | "data", sup : name | "", fields : Seq([name, t, dconv, sconv])]
RECURSIVE Sub(_, _, _)
Sub(E, a, b) == a = b \/ (E.ct[a].sup # "" /\ Sub(E, E.ct[a].sup, b))
IsSubType(E, T1, T2) == IF T1.k = "cls" /\ T2.k = "cls" THEN Sub(E, T1.n, T2.n) ELSE T1 = T2
RECURSIVE Mro(_, _)
Mro(E, n) == <<n>> \o (IF E.ct[n].sup = "" THEN <<>> ELSE Mro(E, E.ct[n].sup))

Convertible(T)  == T.k \in {"int", "str", "none", "list", "dict", "tuple", "cls", "deque"}
IsCollection(T) == T.k \in {"list", "dict", "tuple", "deque"}
DqD(T) == Cv("dqd", TList(T.e), T, FALSE, {}, <<>>, "none", "func")
DqS(T) == Cv("dqs", T, TList(T.e), FALSE, {}, <<>>, "none", "func")

\* sub_conversion(conv, next): (conv.sub_conversion, next)
SubConv(c, next) == c.sub \o next

---------------------------------------------------------------------------
\* DESERIALIZATION

\* default_deserialization: exact class only (deserializers are not inherited)
DefaultD(E, T) == IF T.k = "cls" THEN E.regD[T.n] ELSE IF T.k = "deque" THEN <<DqD(T)>> ELSE <<>>

\* DeserializationVisitor._has_conversion -> [dyn, convs]; dyn /\ convs = <<>> is (True, None)
RECURSIVE HasDLoop(_, _, _, _, _)
HasDLoop(E, T, conv, seenId, acc) ==
  IF conv = <<>> THEN [seenId |-> seenId, acc |-> acc]
  ELSE LET c == Norm(Head(conv), T) IN
       IF ~IsSubType(E, c.tgt, T) THEN HasDLoop(E, T, Tail(conv), seenId, acc)
       ELSE IF IsIdentity(c)
            THEN IF seenId THEN HasDLoop(E, T, Tail(conv), seenId, acc)
                 ELSE HasDLoop(E, T, Tail(conv), TRUE, Append(acc, [c EXCEPT !.sub = <<IdAll>>, !.tgt = T]))
            ELSE HasDLoop(E, T, Tail(conv), seenId, Append(acc, c))
HasD(E, T, conv) ==
  LET r == HasDLoop(E, T, conv, FALSE, <<>>) IN
  IF r.seenId /\ Len(r.acc) = 1 THEN [dyn |-> TRUE, convs |-> <<>>]
  ELSE [dyn |-> r.acc # <<>>, convs |-> r.acc]

\* the resolution step of ConversionsVisitor.visit, deserialization side
StepD(E, T, conv) ==
  LET h     == HasD(E, T, conv)
      convs == IF h.dyn THEN h.convs ELSE HasD(E, T, DefaultD(E, T)).convs
      next  == IF ~h.dyn /\ (IsCollection(T) \/ ("nonlocal" \in Deviations /\ T.k = "cls")) THEN conv ELSE <<>>
  IN [convs |-> convs, next |-> next, dyn |-> h.dyn]

\* field conversion: the dynamic one never reaches a field (deviation "nonlocal")
FieldConvD(f, conv) == IF "nonlocal" \in Deviations /\ f.dconv = <<>> THEN conv ELSE f.dconv
FieldConvS(f, conv) == IF "nonlocal" \in Deviations /\ f.sconv = <<>> THEN conv ELSE f.sconv

\* the plain (conversion-free) type deserialize(T, ., conversion = conv) accepts; TUnsup if none
\* `seen` holds the (class, conversion) pairs being resolved: RecursiveConversionsVisitor keys its
\* placeholders the same way; a pair met again is a back reference [k |-> "rec"]
RECURSIVE PlainDS(_, _, _, _)
PlainSeqDS(E, ts, conv, seen) == [i \in DOMAIN ts |-> PlainDS(E, ts[i], conv, seen)]
UnionOf(ps) == LET ok == SelectSeq(ps, LAMBDA p : p.k # "unsup") IN
               IF ok = <<>> THEN TUnsup ELSE IF Len(ok) = 1 THEN ok[1] ELSE TUni(ok)
StructPlainDS(E, T, conv, seen) ==
  CASE T.k \in {"int", "str", "none"} -> T
    [] T.k = "list"  -> LET p == PlainDS(E, T.e, conv, seen) IN IF p.k = "unsup" THEN TUnsup ELSE TList(p)
    [] T.k = "dict"  -> LET p == PlainDS(E, T.e, conv, seen) IN IF p.k = "unsup" THEN TUnsup ELSE TDict(p)
    [] T.k = "tuple" -> LET ps == PlainSeqDS(E, T.es, conv, seen) IN
                        IF \E i \in DOMAIN ps : ps[i].k = "unsup" THEN TUnsup ELSE TTup(ps)
    [] T.k = "union" -> UnionOf(PlainSeqDS(E, T.alts, conv, seen))
    [] T.k = "deque" -> TUnsup        \* never reached: its standard conversion always applies
    [] T.k = "cls"   -> IF E.ct[T.n].kind = "opq" THEN TUnsup
                        ELSE LET fs == E.ct[T.n].fields
                                 ps == [i \in DOMAIN fs |-> PlainDS(E, fs[i].t, FieldConvD(fs[i], conv), seen)] IN
                             IF \E i \in DOMAIN ps : ps[i].k = "unsup" THEN TUnsup
                             ELSE [k |-> "obj", n |-> T.n, fields |-> [i \in DOMAIN fs |-> <<fs[i].name, ps[i]>>]]
PlainDS(E, T, conv, seen) ==
  IF ~Convertible(T) THEN StructPlainDS(E, T, conv, seen)
  ELSE IF T.k = "cls" /\ <<T, conv>> \in seen THEN [k |-> "rec", n |-> T.n]
  ELSE LET s  == StepD(E, T, conv)
           s2 == IF T.k = "cls" THEN seen \cup {<<T, conv>>} ELSE seen IN
       IF s.convs = <<>> THEN StructPlainDS(E, T, s.next, s2)
       ELSE \* _visit_conversion visits EVERY source: one unsupported source makes the type unsupported
            LET ps == [i \in DOMAIN s.convs |-> PlainDS(E, s.convs[i].src, SubConv(s.convs[i], s.next), s2)] IN
            IF \E i \in DOMAIN ps : ps[i].k = "unsup" THEN TUnsup ELSE UnionOf(ps)
PlainD(E, T, conv)       == PlainDS(E, T, conv, {})
StructPlainD(E, T, conv) == StructPlainDS(E, T, conv, {})
SupD(E, T, conv) == PlainD(E, T, conv).k # "unsup"

\* outcomes: [kind |-> "ok", v] | [kind |-> "bad"] (ValidationError) | [kind |-> "raise"] (ValueError escapes)
OkV(v)  == [kind |-> "ok", v |-> v]
BadV    == [kind |-> "bad", v |-> DNull]
RaiseV  == [kind |-> "raise", v |-> DNull]

\* collections: a ValueError of an element escapes at once, rejections are accumulated
Gather(rs, mk(_)) ==
  IF \E i \in DOMAIN rs : rs[i].kind = "raise" THEN RaiseV
  ELSE IF \E i \in DOMAIN rs : rs[i].kind = "bad" THEN BadV
  ELSE OkV(mk([i \in DOMAIN rs |-> rs[i].v]))

RECURSIVE VD(_, _, _, _)
RECURSIVE TryConvs(_, _, _, _, _)
RECURSIVE TryAlts(_, _, _, _, _)
TryAlts(E, alts, conv, d, i) ==
  IF i > Len(alts) THEN BadV
  ELSE IF ~SupD(E, alts[i], conv) THEN TryAlts(E, alts, conv, d, i + 1)
  ELSE LET r == VD(E, alts[i], conv, d) IN
       IF r.kind = "bad" THEN TryAlts(E, alts, conv, d, i + 1) ELSE r
StructD(E, T, conv, d) ==
  CASE T.k = "int"   -> IF d.k = "int" THEN OkV(d) ELSE BadV
    [] T.k = "str"   -> IF d.k = "str" THEN OkV(d) ELSE BadV
    [] T.k = "none"  -> IF d.k = "null" THEN OkV(d) ELSE BadV
    [] T.k = "list"  -> IF d.k # "arr" THEN BadV
                        ELSE Gather([i \in DOMAIN d.a |-> VD(E, T.e, conv, d.a[i])], VList)
    [] T.k = "dict"  -> IF d.k # "obj" THEN BadV
                        ELSE LET rs == [i \in DOMAIN d.o |-> VD(E, T.e, conv, d.o[i][2])] IN
                             Gather(rs, LAMBDA vs : VDict([i \in DOMAIN vs |-> <<DStr(d.o[i][1]), vs[i]>>]))
    [] T.k = "tuple" -> IF d.k # "arr" \/ Len(d.a) # Len(T.es) THEN BadV
                        ELSE Gather([i \in DOMAIN d.a |-> VD(E, T.es[i], conv, d.a[i])], VTuple)
    [] T.k = "union" -> TryAlts(E, T.alts, conv, d, 1)
    [] T.k = "cls"   ->
         LET fs == E.ct[T.n].fields IN
         IF d.k # "obj" THEN BadV
         ELSE LET names == {fs[i].name : i \in DOMAIN fs}
                  rs == [i \in DOMAIN fs |->
                           IF HasKey(d.o, fs[i].name) THEN VD(E, fs[i].t, FieldConvD(fs[i], conv), Get(d.o, fs[i].name))
                           ELSE BadV]
                  r  == Gather(rs, LAMBDA vs : VInst(T.n, [i \in DOMAIN vs |-> <<fs[i].name, vs[i]>>]))
              IN IF r.kind = "ok" /\ ~(Keys(d.o) \subseteq names) THEN BadV ELSE r
\* ConversionMethod / ConversionWithValueErrorMethod / ConversionUnionMethod
TryConvs(E, convs, next, d, i) ==
  IF i > Len(convs) THEN BadV
  ELSE LET c == convs[i]
           r == VD(E, c.src, SubConv(c, next), d) IN
       CASE r.kind = "raise" -> IF "catchwide" \in Deviations /\ c.catch /\ Len(convs) = 1 THEN BadV ELSE r
         [] r.kind = "bad"   -> TryConvs(E, convs, next, d, i + 1)
         [] OTHER ->
              IF c.id = "identity" THEN r
              ELSE IF c.id = "dqd" THEN OkV([k |-> "deque", a |-> r.v.a])
              ELSE IF r.v \in c.bad
                   THEN IF c.catch THEN TryConvs(E, convs, next, d, i + 1) ELSE RaiseV
                   ELSE OkV(Opq(c.tgt.n, c.id, r.v))
VD(E, T, conv, d) ==
  IF ~Convertible(T) THEN StructD(E, T, conv, d)
  ELSE LET s == StepD(E, T, conv) IN
       IF s.convs = <<>> THEN StructD(E, T, s.next, d)
       ELSE TryConvs(E, s.convs, s.next, d, 1)

---------------------------------------------------------------------------
\* SERIALIZATION

\* default_serialization: the registered serializer of the first class of the MRO having an
\* inheritable one; a custom default_conversion parameter (via = "param") is an exact lookup
Inheritable(c) ==
  CASE c.form = "func"     -> TRUE
    [] c.form = "lazyfunc" -> ~("lazyfuncnotinh" \in Deviations)
    [] OTHER -> IF "inhtruthy" \in Deviations THEN c.inh = "true" ELSE c.inh \in {"none", "true"}
RECURSIVE MroLookup(_, _, _)
MroLookup(E, n, mro) ==
  IF mro = <<>> THEN <<>>
  ELSE LET r == E.regS[Head(mro)] IN
       IF r # <<>> /\ (Head(mro) = n \/ Inheritable(r[1])) THEN r ELSE MroLookup(E, n, Tail(mro))
DefaultS(E, T) ==
  IF T.k = "deque" THEN <<DqS(T)>> ELSE
  IF T.k # "cls" THEN <<>>
  ELSE IF E.via = "param" THEN E.regS[T.n] ELSE MroLookup(E, T.n, Mro(E, T.n))

\* SerializationVisitor._has_conversion -> [dyn, c : Seq of 0 or 1 conversion]
RECURSIVE HasS(_, _, _)
HasS(E, T, conv) ==
  IF conv = <<>> THEN [dyn |-> FALSE, c |-> <<>>]
  ELSE LET c == Norm(Head(conv), T) IN
       IF IsSubType(E, T, c.src)
       THEN IF IsIdentity(c) THEN [dyn |-> TRUE, c |-> <<>>] ELSE [dyn |-> TRUE, c |-> <<c>>]
       ELSE HasS(E, T, Tail(conv))
StepS(E, T, conv) ==
  LET h == HasS(E, T, conv)
      c == IF h.dyn THEN h.c ELSE HasS(E, T, DefaultS(E, T)).c
      next == IF ~h.dyn /\ (IsCollection(T) \/ ("nonlocal" \in Deviations /\ T.k = "cls")) THEN conv ELSE <<>>
  IN [c |-> c, next |-> next, dyn |-> h.dyn]

RECURSIVE PlainSS(_, _, _, _)
StructPlainSS(E, T, conv, seen) ==
  CASE T.k \in {"int", "str", "none"} -> T
    [] T.k = "list"  -> LET p == PlainSS(E, T.e, conv, seen) IN IF p.k = "unsup" THEN TUnsup ELSE TList(p)
    [] T.k = "dict"  -> LET p == PlainSS(E, T.e, conv, seen) IN IF p.k = "unsup" THEN TUnsup ELSE TDict(p)
    [] T.k = "tuple" -> LET ps == [i \in DOMAIN T.es |-> PlainSS(E, T.es[i], conv, seen)] IN
                        IF \E i \in DOMAIN ps : ps[i].k = "unsup" THEN TUnsup ELSE TTup(ps)
    [] T.k = "union" -> UnionOf([i \in DOMAIN T.alts |-> PlainSS(E, T.alts[i], conv, seen)])
    [] T.k = "deque" -> TUnsup
    [] T.k = "cls"   -> IF E.ct[T.n].kind = "opq" THEN TUnsup
                        ELSE LET fs == E.ct[T.n].fields
                                 ps == [i \in DOMAIN fs |-> PlainSS(E, fs[i].t, FieldConvS(fs[i], conv), seen)] IN
                             IF \E i \in DOMAIN ps : ps[i].k = "unsup" THEN TUnsup
                             ELSE [k |-> "obj", n |-> T.n, fields |-> [i \in DOMAIN fs |-> <<fs[i].name, ps[i]>>]]
PlainSS(E, T, conv, seen) ==
  IF ~Convertible(T) THEN StructPlainSS(E, T, conv, seen)
  ELSE IF T.k = "cls" /\ <<T, conv>> \in seen THEN [k |-> "rec", n |-> T.n]
  ELSE LET s  == StepS(E, T, conv)
           s2 == IF T.k = "cls" THEN seen \cup {<<T, conv>>} ELSE seen IN
       IF s.c = <<>> THEN StructPlainSS(E, T, s.next, s2)
       ELSE PlainSS(E, s.c[1].tgt, SubConv(s.c[1], s.next), s2)
PlainS(E, T, conv)       == PlainSS(E, T, conv, {})
StructPlainS(E, T, conv) == StructPlainSS(E, T, conv, {})
SupS(E, T, conv) == PlainS(E, T, conv).k # "unsup"

\* the serializers: what they return for an opaque instance with payload p (always an int datum)
GApply(c, v) ==
  CASE c.id \in {"ti", "ti3"} -> v.v
    [] c.id \in {"ts", "ts2"}  -> DStr(ToString(v.v.n) \o (IF c.id = "ts2" THEN "!" ELSE ""))
    [] c.id = "tl"   -> VList(<<v.v, v.v>>)
    [] c.id = "tw"   -> VInst("W", << <<"w", v.v>> >>)
    [] c.id = "tk3"  -> Opq("K3", "tk3", v.v)
    [] c.id = "tlk"  -> VList(<<Opq("K3", "tlk", v.v)>>)
    [] c.id = "dqs"  -> VList(v.a)

\* runtime class test of a union alternative (expected_class / isinstance)
IsOf(E, v, T) ==
  CASE T.k = "int"   -> v.k = "int"
    [] T.k = "str"   -> v.k = "str"
    [] T.k = "none"  -> v.k = "null"
    [] T.k = "list"  -> v.k = "list"
    [] T.k = "dict"  -> v.k = "dict"
    [] T.k = "tuple" -> v.k = "tuple"
    [] T.k = "deque" -> v.k = "deque"
    [] T.k = "cls"   -> (v.k = "opq" /\ Sub(E, v.cls, T.n)) \/ (v.k = "inst" /\ Sub(E, v.cls, T.n))
    [] OTHER -> FALSE

\* outcome: a JSON datum (serializers of the pool never fail)
RECURSIVE VS(_, _, _, _)
StructS(E, T, conv, v) ==
  CASE T.k \in {"int", "str", "none"} -> v
    [] T.k = "list"  -> DArr([i \in DOMAIN v.a |-> VS(E, T.e, conv, v.a[i])])
    [] T.k = "tuple" -> DArr([i \in DOMAIN v.a |-> VS(E, T.es[i], conv, v.a[i])])
    [] T.k = "dict"  -> DObj([i \in DOMAIN v.o |-> <<v.o[i][1].s, VS(E, T.e, conv, v.o[i][2])>>])
    [] T.k = "union" -> LET ok == SelectSeq(T.alts, LAMBDA a : SupS(E, a, conv) /\ IsOf(E, v, a)) IN
                        \* no alternative takes the value (its own one is unsupported): left unspecified
                        IF ok = <<>> THEN [k |-> "fail"] ELSE VS(E, ok[1], conv, v)
    [] T.k = "cls"   -> LET fs == E.ct[T.n].fields IN
                        DObj([i \in DOMAIN fs |-> <<fs[i].name, VS(E, fs[i].t, FieldConvS(fs[i], conv), Get(v.f, fs[i].name))>>])
VS(E, T, conv, v) ==
  IF ~Convertible(T) THEN StructS(E, T, conv, v)
  ELSE LET s == StepS(E, T, conv) IN
       IF s.c = <<>> THEN StructS(E, T, s.next, v)
       ELSE VS(E, s.c[1].tgt, SubConv(s.c[1], s.next), GApply(s.c[1], v))
=============================================================================
