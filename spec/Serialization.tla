---------------------------- MODULE Serialization ---------------------------
(***************************************************************************)
(* Layer R -- reference semantics of apischema serialization (DESIGN A.5,  *)
(* docs/de_serialization.md):  Ser(ctx, T, v) is the JSON image of the     *)
(* typed value v under type T.                                             *)
(*                                                                         *)
(* Data produced: the JSON data of Values.tla, plus                        *)
(*   [k|->"bag", e : set of data]   the image of a set (element order is   *)
(*                                  not prescribed)                        *)
(*   [k|->"serr", why]              serialization is not defined (value    *)
(*                                  not of the type)                       *)
(* Options read in ctx.O: ali (aliaser), exn (exclude_none),               *)
(* exd (exclude_defaults), addl (additional_properties, TypedDict only).   *)
(* Field attributes read here in addition to DataModel's: skips            *)
(* (skip(serialization=True)), skip_default, skip_if (predicate id or ""), *)
(* and the class attribute smethods : Seq([name, alias, rtype, rv])        *)
(* (serialized methods returning the constant rv).                         *)
(***************************************************************************)
EXTENDS DataModel

DBag(e)    == [k |-> "bag", e |-> e]
SErr(why)  == [k |-> "serr", why |-> why]
IsSErr(d)  == d.k = "serr"

\* predicates usable in skip(serialization_if=...)
Pred(p, v) == CASE p = "neg"   -> (v.k = "int" /\ v.n < 0) \/ (v.k = "float" /\ v.h < 0)
                [] p = "empty" -> (v.k = "str" /\ v.s = "") \/ (v.k \in {"list", "tuple"} /\ v.a = <<>>)
                                  \/ (v.k = "dict" /\ v.o = <<>>)
                [] p = "falsy" -> \/ v.k = "null" \/ (v.k = "bool" /\ ~v.b) \/ (v.k = "int" /\ v.n = 0)
                                  \/ (v.k = "float" /\ v.h = 0) \/ (v.k = "str" /\ v.s = "")
                                  \/ (v.k \in {"list", "tuple"} /\ v.a = <<>>) \/ (v.k = "dict" /\ v.o = <<>>)
                                  \/ (v.k \in {"set", "fset"} /\ v.e = {})
                [] OTHER -> FALSE

RECURSIVE IsOptType(_)
\* is_union_of(type, NoneType), through Annotated
IsOptType(T) == CASE T.k = "annot" -> IsOptType(T.t)
                  [] T.k = "union" -> \E i \in DOMAIN T.alts : T.alts[i] = TPrim("none")
                  [] OTHER -> FALSE

SerFields(K) == SelectSeq(K.fields, LAMBDA f : ~f.skips /\ f.kind # "wo")

\* issubclass along the declared bases: an instance of a subclass is a value of the base class too
RECURSIVE IsSubclass(_, _, _)
IsSubclass(ctx, c, b) == c = b \/ \E i \in DOMAIN ctx.C[c].bases : IsSubclass(ctx, ctx.C[c].bases[i], b)

\* runtime class test used to select the alternative of a union (isinstance)
RECURSIVE InstOf(_, _, _)
InstOf(ctx, T, v) ==
  CASE T.k = "prim" -> (CASE T.p = "none"  -> v.k = "null"
                          [] T.p = "bool"  -> v.k = "bool"
                          [] T.p = "int"   -> v.k \in {"int", "bool"}      \* bool is a subclass of int
                          [] T.p = "float" -> v.k = "float"
                          [] T.p = "str"   -> v.k = "str"
                          [] T.p = "undef" -> v.k = "undef")
    [] T.k = "any"     -> TRUE
    [] T.k = "newtype" -> InstOf(ctx, T.sup, v)
    [] T.k = "annot"   -> InstOf(ctx, T.t, v)
    [] T.k = "coll"    -> (CASE T.c = "list" -> v.k = "list" [] T.c = "vtuple" -> v.k = "tuple" [] T.c = "seq" -> v.k \in {"list", "tuple"}
                             [] T.c = "set" -> v.k = "set" [] T.c = "fset" -> v.k = "fset")
    [] T.k = "tuple"   -> v.k = "tuple"
    [] T.k = "map"     -> v.k = "dict"
    [] T.k = "lit"     -> \E i \in DOMAIN T.vals : LitImg(T, i).k = v.k
    [] T.k = "enum"    -> v.k = "enum" /\ v.cls = T.cls
    [] T.k = "obj"     -> IF ctx.C[T.cls].kind = "typeddict" THEN v.k = "dict" ELSE v.k = "inst" /\ IsSubclass(ctx, v.cls, T.cls)
    [] T.k = "union"   -> \E i \in DOMAIN T.alts : InstOf(ctx, T.alts[i], v)
    [] T.k = "dunion"  -> \E i \in DOMAIN T.alts : InstOf(ctx, T.alts[i], v)
    [] OTHER -> FALSE

RECURSIVE Ser(_, _, _)
RECURSIVE SerAny(_, _)
RECURSIVE SerObj(_, _, _)

KeyStr(d) == IF d.k = "str" THEN d.s ELSE "?nonstr"

\* serialization by the runtime class of the value (type Any, and serialize(v) without type)
SerAny(ctx, v) ==
  CASE v.k \in {"null", "bool", "int", "float", "str"} -> v
    [] v.k \in {"list", "tuple"} -> DArr([i \in DOMAIN v.a |-> SerAny(ctx, v.a[i])])
    [] v.k \in {"set", "fset"}   -> DBag({SerAny(ctx, x) : x \in v.e})
    [] v.k = "dict" -> DObj([i \in DOMAIN v.o |-> <<KeyStr(SerAny(ctx, v.o[i][1])), SerAny(ctx, v.o[i][2])>>])
    [] v.k = "enum" -> SerAny(ctx, (CHOOSE m \in Range(ctx.En[v.cls]) : m[1] = v.m)[2])
    [] v.k = "inst" -> SerObj(ctx, v.cls, v)
    [] OTHER -> SErr("not serializable")

FieldVal(K, v, f) == IF K.kind = "typeddict" THEN Get(v.o, DStr(f.name)) ELSE Get(v.f, f.name)
FieldPresent(K, v, f) == IF K.kind = "typeddict" THEN HasKey(v.o, DStr(f.name)) ELSE HasKey(v.f, f.name)

\* the omission rule (DESIGN A.5): exactly when is a field left out
Omitted(ctx, K, f, v) ==
  \/ ~FieldPresent(K, v, f)
  \/ LET x == FieldVal(K, v, f) IN
       \/ x.k = "undef"
       \/ f.skip_if # "" /\ Pred(f.skip_if, x)
       \/ x.k = "null" /\ (\/ f.nau
                           \/ ctx.O.exn /\ IsOptType(f.type)
                           \/ ctx.O.exd /\ f.dk # "req" /\ f.dv.k = "null")
       \/ /\ f.dk # "req" /\ f.dv.k \notin {"null", "undef"} /\ x = f.dv
          /\ (f.skip_default \/ ctx.O.exd)

SerObj(ctx, cls, v) ==
  LET K  == ctx.C[cls]
      fs == SerFields(K)
      entries(f) ==
        IF Omitted(ctx, K, f, v) THEN <<>>
        ELSE LET img == Ser(ctx, FType(f), FieldVal(K, v, f)) IN
             IF IsNormal(f) THEN << <<Ext(ctx, f), img>> >>
             ELSE IF img.k = "obj" THEN img.o ELSE << <<"?aggregate", img>> >>     \* merged into the parent
      ments(m) ==
        IF m.rv.k = "undef" THEN <<>>
        ELSE IF m.rv.k = "null" /\ ctx.O.exn /\ IsOptType(m.rtype) THEN <<>>
        ELSE << <<Ali(ctx, m.alias), Ser(ctx, m.rtype, m.rv)>> >>
      known == {DStr(fs[i].name) : i \in DOMAIN fs}
      declared == FlattenSeq([i \in DOMAIN fs |-> entries(fs[i])])
                  \o FlattenSeq([i \in DOMAIN K.smethods |-> ments(K.smethods[i])])
      extra == IF K.kind = "typeddict" /\ ctx.O.addl
               THEN SelectSeq(v.o, LAMBDA p : /\ p[1] \notin {DStr(K.fields[i].name) : i \in DOMAIN K.fields}
                                                \* a declared key already emitted under this external name wins
                                                /\ \A j \in DOMAIN declared : declared[j][1] # KeyStr(p[1]))
               ELSE <<>>
  IN DObj(declared
          \o [i \in DOMAIN extra |-> <<KeyStr(extra[i][1]), SerAny(ctx, extra[i][2])>>])

Ser(ctx, T, v) ==
  CASE T.k = "prim"    -> IF InstOf(ctx, T, v) THEN v ELSE SErr("type")
    [] T.k = "any"     -> SerAny(ctx, v)
    [] T.k = "newtype" -> Ser(ctx, T.sup, v)
    [] T.k = "annot"   -> Ser(ctx, T.t, v)
    [] T.k = "coll"    ->
         IF ~InstOf(ctx, T, v) THEN SErr("type")
         ELSE IF T.c \in {"list", "vtuple", "seq"} THEN DArr([i \in DOMAIN v.a |-> Ser(ctx, T.e, v.a[i])])
         ELSE DBag({Ser(ctx, T.e, x) : x \in v.e})
    [] T.k = "tuple"   ->
         IF v.k # "tuple" \/ Len(v.a) # Len(T.es) THEN SErr("type")
         ELSE DArr([i \in DOMAIN v.a |-> Ser(ctx, T.es[i], v.a[i])])
    [] T.k = "map"     ->
         IF v.k # "dict" THEN SErr("type")
         ELSE DObj([i \in DOMAIN v.o |-> <<KeyStr(Ser(ctx, T.kt, v.o[i][1])), Ser(ctx, T.vt, v.o[i][2])>>])
    [] T.k = "lit"     -> IF v.k = "enum" THEN SerAny(ctx, v) ELSE v      \* a member of an Enum among the values: by value
    [] T.k = "enum"    -> IF InstOf(ctx, T, v) THEN SerAny(ctx, v) ELSE SErr("type")
    [] T.k = "union"   ->
         \* the first alternative whose class matches
         LET hit == {i \in DOMAIN T.alts : InstOf(ctx, T.alts[i], v)} IN
         IF hit = {} THEN SErr("union")
         \* a plain dict cannot be told from a TypedDict at run time: when another alternative (Any, a
         \* mapping) takes dicts too, which one serializes it is left unspecified
         ELSE IF v.k = "dict" /\ Cardinality(hit) > 1
                 /\ \E i \in hit : T.alts[i].k = "obj" /\ ctx.C[T.alts[i].cls].kind = "typeddict"
              THEN SErr("typeddict-or-mapping")
         ELSE Ser(ctx, T.alts[CHOOSE i \in hit : \A j \in hit : i <= j], v)
    [] T.k = "dunion"  ->
         LET hit == {i \in DOMAIN T.alts : InstOf(ctx, T.alts[i], v)} IN
         IF hit = {} THEN SErr("union")
         ELSE LET i   == CHOOSE j \in hit : \A jj \in hit : j <= jj
                  img == Ser(ctx, T.alts[i], v)
                  al  == Ali(ctx, T.alias)
              IN \* the discriminator key is added so that the value round-trips
                 IF img.k = "obj" /\ ~HasKey(img.o, al) THEN DObj(Append(img.o, <<al, DStr(T.keys[i][1])>>)) ELSE img
    [] T.k = "obj"     -> IF InstOf(ctx, T, v) THEN SerObj(ctx, T.cls, v) ELSE SErr("type")

---------------------------------------------------------------------------
\* only dict with string keys, list, str, int, float, bool and None (C04)
RECURSIVE IsJson(_)
IsJson(d) == CASE d.k \in {"null", "bool", "int", "float", "str"} -> TRUE
               [] d.k = "arr" -> \A i \in DOMAIN d.a : IsJson(d.a[i])
               [] d.k = "bag" -> \A x \in d.e : IsJson(x)
               [] d.k = "obj" -> \A i \in DOMAIN d.o : d.o[i][1] # "?nonstr" /\ d.o[i][1] # "?aggregate" /\ IsJson(d.o[i][2])
               [] OTHER -> FALSE

\* A value of a union typed by a LATER alternative may have the class of an EARLIER one
\* ([None] for Union[List[int], Any]): "the first alternative whose class matches" is then
\* applied to a value that is not of that alternative -- the image is not prescribed.
RECURSIVE HasSErr(_)
HasSErr(d) == CASE d.k = "serr" -> TRUE
                [] d.k = "arr" -> \E i \in DOMAIN d.a : HasSErr(d.a[i])
                [] d.k = "bag" -> \E x \in d.e : HasSErr(x)
                [] d.k = "obj" -> \E i \in DOMAIN d.o : HasSErr(d.o[i][2])
                [] OTHER -> FALSE

\* reading a serialized datum back as data for deserialization: a bag becomes an array
RECURSIVE AsData(_)
AsData(d) == CASE d.k = "arr" -> DArr([i \in DOMAIN d.a |-> AsData(d.a[i])])
               [] d.k = "bag" -> DArr(SetToSeq({AsData(x) : x \in d.e}))
               [] d.k = "obj" -> DObj([i \in DOMAIN d.o |-> <<d.o[i][1], AsData(d.o[i][2])>>])
               [] OTHER -> d

\* equality of serialized data: objects are compared as mappings (key ORDER is C16's business)
RECURSIVE SerNorm(_)
SerNorm(d) == CASE d.k = "arr" -> DArr([i \in DOMAIN d.a |-> SerNorm(d.a[i])])
                [] d.k = "bag" -> DBag({SerNorm(x) : x \in d.e})
                [] d.k = "obj" -> [k |-> "obj", items |-> {<<d.o[i][1], SerNorm(d.o[i][2])>> : i \in DOMAIN d.o}]
                [] OTHER -> d
=============================================================================
