---------------------------- MODULE MC_FieldsSet ----------------------------
(* Class shapes and emission for C15. *)
EXTENDS FieldsSet, Json, IOUtils

Fd(n, k, das, req, owner) == [name |-> n, kind |-> k, das |-> das, req |-> req, owner |-> owner]
Sh(id, fields, b, s, hasSub) == [id |-> id, fields |-> fields, deco |-> [base |-> b, sub |-> s], hasSub |-> hasSub, mixin |-> FALSE, generic |-> FALSE]
\* a Generic[T] class (field g is of type T), observed through the parametrised form K[int] too
ShGeneric(id, fields) == [id |-> id, fields |-> fields, deco |-> [base |-> TRUE, sub |-> FALSE], hasSub |-> FALSE, mixin |-> FALSE, generic |-> TRUE]
\* the subclass lists a plain (undecorated, non-tracking) mixin BEFORE the tracked base: class K(Mixin, Base)
ShMixin(id, fields, b, s) == [id |-> id, fields |-> fields, deco |-> [base |-> b, sub |-> s], hasSub |-> TRUE, mixin |-> TRUE, generic |-> FALSE]

MCShapes == {
  \* a single decorated class: defaulted fields, one default_as_set
  Sh("S1", << Fd("a", "normal", FALSE, FALSE, "base"), Fd("b", "normal", FALSE, FALSE, "base"),
              Fd("c", "normal", TRUE, FALSE, "base") >>, TRUE, FALSE, FALSE),
  \* required field, init=False field, InitVar
  Sh("S2", << Fd("a", "normal", FALSE, TRUE, "base"), Fd("b", "normal", FALSE, FALSE, "base"),
              Fd("n", "noinit", FALSE, FALSE, "base"), Fd("w", "initvar", FALSE, FALSE, "base") >>, TRUE, FALSE, FALSE),
  \* decorated base, UNDECORATED dataclass subclass (sandwich)
  Sh("S3", << Fd("a", "normal", FALSE, FALSE, "base"), Fd("b", "normal", TRUE, FALSE, "base"),
              Fd("c", "normal", FALSE, FALSE, "sub") >>, TRUE, FALSE, TRUE),
  \* decorated base, decorated subclass with its own default_as_set / init=False fields
  Sh("S4", << Fd("a", "normal", FALSE, FALSE, "base"), Fd("d", "normal", TRUE, FALSE, "base"),
              Fd("c", "normal", FALSE, FALSE, "sub"), Fd("e", "normal", TRUE, FALSE, "sub"),
              Fd("n", "noinit", FALSE, FALSE, "sub") >>, TRUE, TRUE, TRUE),
  \* undecorated base, decorated subclass
  Sh("S5", << Fd("a", "normal", FALSE, TRUE, "base"), Fd("b", "normal", FALSE, FALSE, "sub"),
              Fd("c", "normal", TRUE, FALSE, "sub") >>, FALSE, TRUE, TRUE),
  \* decorated base, undecorated subclass with a mixin listed first (field m comes from the mixin)
  ShMixin("S6", << Fd("a", "normal", FALSE, FALSE, "base"), Fd("b", "normal", TRUE, FALSE, "base"),
                   Fd("m", "normal", FALSE, FALSE, "sub"), Fd("c", "normal", FALSE, FALSE, "sub") >>, TRUE, FALSE),
  \* the same with a decorated subclass
  ShMixin("S7", << Fd("a", "normal", FALSE, FALSE, "base"), Fd("w", "initvar", FALSE, FALSE, "base"),
                   Fd("m", "normal", FALSE, FALSE, "sub"), Fd("c", "normal", TRUE, FALSE, "sub") >>, TRUE, TRUE),
  \* an InitVar declared BEFORE other init fields: positional arguments must be attributed by the signature
  Sh("S8", << Fd("a", "normal", FALSE, TRUE, "base"), Fd("w", "initvar", FALSE, FALSE, "base"),
              Fd("b", "normal", FALSE, FALSE, "base"), Fd("c", "normal", TRUE, FALSE, "base") >>, TRUE, FALSE, FALSE),
  \* an aggregate (flattened) field with a default next to regular ones: unset, it is not emitted
  Sh("S10", << Fd("a", "normal", FALSE, FALSE, "base"), Fd("p", "flat", FALSE, FALSE, "base"),
               Fd("c", "normal", TRUE, FALSE, "base") >>, TRUE, FALSE, FALSE),
  \* decorated base, UNDECORATED @dataclass(init=False) subclass whose hand-written __init__ assigns its own field c
  \* BEFORE calling the tracked __init__ of the base: c is assigned at every construction (it is always set, as a
  \* default_as_set field is), the base's fields are set when passed
  [id |-> "S11", fields |-> << Fd("a", "normal", FALSE, FALSE, "base"), Fd("b", "normal", FALSE, FALSE, "base"),
                               Fd("c", "normal", TRUE, FALSE, "sub") >>,
   deco |-> [base |-> TRUE, sub |-> FALSE], hasSub |-> TRUE, mixin |-> FALSE, generic |-> FALSE, custominit |-> TRUE],
  ShGeneric("S9", << Fd("a", "normal", FALSE, FALSE, "base"), Fd("g", "normal", FALSE, FALSE, "base"),
                     Fd("c", "normal", TRUE, FALSE, "base") >>) }

Emit == "EMIT" \in DOMAIN IOEnv /\ IOEnv.EMIT = "1"
\* one line per reachable history: the operations and what must be observed after the last one
EmitHist == (Emit /\ alive) =>
  PrintT(ToJson([shape |-> shape, ops |-> hist, exact |-> Exact(shape), fs |-> fs, lo |-> lo,
                 keys_unset |-> KeysUnset, keys_all |-> KeysAll,
                 orig |-> [has |-> orig.has, fs |-> orig.fs, lo |-> orig.lo]]))
=============================================================================
