------------------------------ MODULE MC_Names -------------------------------
(* C11: every combination of field alias / override flag / class aliaser /    *)
(* per-call aliaser / settings.aliaser over three class structures (plain,    *)
(* nested, flattened); OneName relates the per-view computation of the code   *)
(* (Layer M) to the rule of the property (Layer R); each configuration is     *)
(* emitted with the expected external name of each field for replay.          *)
EXTENDS Names, Json, IOUtils

CONSTANTS Tier
VARIABLES cfg, phase
vars == <<cfg, phase>>

Emit == "EMIT" \in DOMAIN IOEnv /\ IOEnv.EMIT = "1"

F(n, a, o, r) == [name |-> n, alias |-> a, ovr |-> o, req |-> r]
Aliases1 == IF Tier = "quick" THEN {"", "al_one", "class", "$ref"} ELSE {"", "al_one", "class", "$ref", "Mixed_caseX", "first_val"}
F1s == {F("first_val", a, o, TRUE) : a \in Aliases1, o \in BOOLEAN}
F2s == {F("secondVal", "two_al", o, TRUE) : o \in BOOLEAN} \cup (IF Tier = "quick" THEN {} ELSE {F("secondVal", "", TRUE, TRUE)})
Gs  == {F("own_f", "", TRUE, TRUE), F("own_f", "ownAl", FALSE, TRUE)} \cup (IF Tier = "quick" THEN {} ELSE {F("own_f", "own_al", TRUE, TRUE)})
Ls  == {F("the_link", "", TRUE, TRUE), F("the_link", "lnk_a", TRUE, TRUE), F("the_link", "lnk_a", FALSE, TRUE)}
Cals == {"none", "upper", "prefix"}
\* (per-call aliaser, settings.aliaser): the global one matters only when the call gives none
Dyns == {<<c, "id">> : c \in {"id", "camel", "custom"}} \cup {<<"default", g>> : g \in {"id", "camel", "custom"}}

\* optional twins of f1 / f2 carrying the dependent_required relation  o1 -> [o2]
O(f) == [name |-> "o" \o f.name, alias |-> IF f.alias = "" THEN "" ELSE "o" \o f.alias, ovr |-> f.ovr, req |-> FALSE]

\* "inherit": the fields and the validators are declared by a base class WITHOUT class aliaser, the class
\* aliaser sits on the (otherwise empty) subclass that is (de)serialized: it is the one that applies
\* "generic": the class is Generic[T] and every view is taken on its SPECIALISED form Inner[int]: same names
Cfgs ==
  {[struct |-> st, ocal |-> "none", ical |-> ic, f1 |-> a, f2 |-> b, g |-> F("own_f", "", TRUE, TRUE),
    link |-> F("the_link", "", TRUE, TRUE), call |-> dy[1], glob |-> dy[2]]
      : st \in {"plain", "inherit", "generic"}, ic \in Cals, a \in F1s, b \in F2s, dy \in Dyns}
  \cup
  {[struct |-> "nested", ocal |-> oc, ical |-> ic, f1 |-> a, f2 |-> b, g |-> gg, link |-> l, call |-> dy[1], glob |-> dy[2]]
      : oc \in Cals, ic \in Cals, a \in F1s, b \in F2s, gg \in Gs, l \in Ls, dy \in Dyns}
  \cup
  {[struct |-> "flat", ocal |-> oc, ical |-> ic, f1 |-> a, f2 |-> b, g |-> gg, link |-> F("the_link", "", TRUE, TRUE),
    call |-> dy[1], glob |-> dy[2]]
      : oc \in Cals, ic \in Cals, a \in F1s, b \in F2s, gg \in Gs, dy \in Dyns}

D(c) == Dyn(c.call, c.glob)
\* expected external names, by role
Expected(c) ==
  [f1 |-> Ext(c.ical, c.f1, D(c)), f2 |-> Ext(c.ical, c.f2, D(c)),
   o1 |-> Ext(c.ical, O(c.f1), D(c)), o2 |-> Ext(c.ical, O(c.f2), D(c)),
   g  |-> Ext(c.ocal, c.g, D(c)), link |-> Ext(c.ocal, c.link, D(c))]

\* the parameters of the GraphQL operation used in the replay
P1 == [name |-> "arg_val", alias |-> "arg_al", ovr |-> TRUE, req |-> TRUE]
P2 == [name |-> "plain_arg", alias |-> "", ovr |-> TRUE, req |-> FALSE]
ASSUME Emit => PrintT(ToJson([header |-> TRUE, tier |-> Tier]))

Init == cfg \in Cfgs /\ phase = "start"
Name == /\ phase = "start" /\ phase' = "done" /\ UNCHANGED cfg
        /\ Emit => PrintT(ToJson([cfg |-> [cfg EXCEPT !.f1 = cfg.f1] , o1 |-> O(cfg.f1), o2 |-> O(cfg.f2), expect |-> Expected(cfg),
                                   params |-> [p1 |-> ParamExt(P1, D(cfg)), p2 |-> ParamExt(P2, D(cfg))]]))
Next == Name
Spec == Init /\ [][Next]_vars

\* every view of every field computes the rule's name
OneNameAll ==
  /\ \A f \in {cfg.f1, cfg.f2, O(cfg.f1), O(cfg.f2)} : OneName(cfg.ical, f, D(cfg))
  /\ \A f \in {cfg.g, cfg.link} : OneName(cfg.ocal, f, D(cfg))
  /\ OneParamName(P1, D(cfg)) /\ OneParamName(P2, D(cfg))
\* the override = FALSE exemption concerns ONLY the class aliaser
DynIgnoresOverride ==
  \A f \in {cfg.f1, cfg.f2} : D(cfg) # "id" => Ext(cfg.ical, f, D(cfg)).apps # <<>> /\ Ext(cfg.ical, f, D(cfg)).apps[Len(Ext(cfg.ical, f, D(cfg)).apps)] = D(cfg)
ClassAliaserRespectsOverride ==
  \A f \in {cfg.f1, cfg.f2} : (~f.ovr \/ cfg.ical = "none") <=> (\A i \in DOMAIN Ext(cfg.ical, f, "id").apps : FALSE)
=============================================================================
