CONSTANT Tier = "d0"
SPECIFICATION Spec
INVARIANT ResultShape
INVARIANT LocsInData
INVARIANT AdditionalWidens
INVARIANT NoUnexpectedWhenAllowed
INVARIANT CoerceWidens
