CONSTANT Tier = "d0"
CONSTANT Coerce = FALSE
CONSTANT Deviations = {}
CONSTANT SchemaGaps = {"flattened", "mapkeys", "discriminated", "patoverlap"}
CONSTANT VocabularyGaps = {}
SPECIFICATION Spec
INVARIANT ResultShape
INVARIANT LocsInData
INVARIANT AdditionalWidens
INVARIANT NoUnexpectedWhenAllowed
INVARIANT CoerceWidens
