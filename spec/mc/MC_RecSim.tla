----------------------------- MODULE MC_RecSim ------------------------------
(* Schedules for the spec -> code replay of C20: behaviours of RecCheck (the *)
(* graph / program constants come from the generated module MC_RecGen) with  *)
(* the sequence of shared accesses carried as a history variable and printed *)
(* as JSON when every thread is done.  Used with `tlc -simulate`.            *)
EXTENDS MC_RecGen, Json

VARIABLES hist, printed
SimInit == Init /\ hist = <<>> /\ printed = FALSE
SimStep == /\ ~Done /\ \E t \in Threads : Step(t)
           /\ hist' = IF last'.op \in {"contains", "lookup", "set", "get"} THEN Append(hist, last') ELSE hist
           /\ UNCHANGED printed
SimEmit == /\ Done /\ ~printed
           /\ PrintT(ToJson([sound |-> CacheSound /\ ResultSound, sched |-> hist]))
           /\ printed' = TRUE /\ UNCHANGED <<vars, hist>>
SimNext == SimStep \/ SimEmit
=============================================================================
