------------------------------- MODULE MC_Conv -------------------------------
(* C12: conversion graphs over a pool of opaque classes (K1, K2 < K1, K3) and  *)
(* dataclasses (W, H) x registered / dynamic / field-level / default_conversion*)
(* placement x data and values.  Invariants are the laws of the property; each *)
(* (environment, type, dynamic conversion) is emitted with the expected outcome *)
(* for every datum / value and the plain types the schemas must describe.      *)
EXTENDS Conversions, Json, IOUtils

CONSTANTS Tier, Dir
VARIABLES cfg, phase
vars == <<cfg, phase>>
Emit == "EMIT" \in DOMAIN IOEnv /\ IOEnv.EMIT = "1"

K1 == TCls("K1")  K2 == TCls("K2")  K4 == TCls("K4")  K3 == TCls("K3")  W == TCls("W")  H == TCls("H")
N == TCls("N")  H2 == TCls("H2")
D(id, s, t, catch, bad) == Cv(id, s, t, catch, bad, <<>>, "none", "func")

\* ---- deserializer pool
fi   == D("fi",  TInt, K1, FALSE, {DInt(13)})
fic  == D("fic", TInt, K1, TRUE,  {DInt(13)})
fs   == D("fs",  TStr, K1, TRUE,  {DStr("bad")})
fl   == D("fl",  TList(TInt), K1, FALSE, {})
fw   == D("fw",  W, K1, FALSE, {})
fk3  == D("fk3", K3, K1, TRUE, {})                    \* chain K1 <- K3 <- int
f3   == D("f3",  TInt, K3, FALSE, {DInt(13)})         \* registered for K3, NOT catching
f3s  == D("f3s", TStr, K3, TRUE, {DStr("bad")})       \* used as a sub-conversion
f2   == D("f2",  TInt, K2, FALSE, {})                 \* target is a subclass of K1 (LSP)
fk3sub == [fk3 EXCEPT !.id = "fk3sub", !.sub = <<f3s>>]
\* a RECURSIVE conversion graph: K1 <- H2 (object) whose field x : K1 is converted from List[K1]
fh   == D("fh",  H2, K1, FALSE, {})
flk  == D("flk", TList(K1), K1, FALSE, {})

\* ---- serializer pool
S(id, s, t, inh, form) == Cv(id, s, t, FALSE, {}, <<>>, inh, form)
ti(inh, form)  == S("ti",  K1, TInt, inh, form)
ts(inh, form)  == S("ts",  K1, TStr, inh, form)
tl(inh, form)  == S("tl",  K1, TList(TInt), inh, form)
tw(inh, form)  == S("tw",  K1, W, inh, form)
tk3(inh, form) == S("tk3", K1, K3, inh, form)
tlk(inh, form) == S("tlk", K1, TList(K3), inh, form)
ts2 == S("ts2", K2, TStr, "none", "func")
ts2ni == S("ts2", K2, TStr, "false", "obj")      \* the same converter registered as Conversion(..., inherited=False)
ti3 == S("ti3", K3, TInt, "none", "func")
tk3sub == [tk3("none", "obj") EXCEPT !.id = "tk3", !.sub = <<S("ts", K3, TStr, "none", "func")>>]

Forms == {<<"none", "func">>, <<"none", "obj">>, <<"true", "obj">>, <<"false", "obj">>, <<"none", "lazy">>, <<"false", "lazy">>, <<"none", "lazyfunc">>}

CT(xd, xs) ==
  [K1 |-> [kind |-> "opq", sup |-> "", fields |-> <<>>],
   K2 |-> [kind |-> "opq", sup |-> "K1", fields |-> <<>>],
   K3 |-> [kind |-> "opq", sup |-> "", fields |-> <<>>],
   \* a third level K4 < K2 < K1: a non-inheritable serializer of K2 must not hide the inheritable one of K1
   K4 |-> [kind |-> "opq", sup |-> "K2", fields |-> <<>>],
   W  |-> [kind |-> "data", sup |-> "", fields |-> <<[name |-> "w", t |-> TInt, dconv |-> <<>>, sconv |-> <<>>]>>],
   H  |-> [kind |-> "data", sup |-> "", fields |-> <<[name |-> "x", t |-> K1, dconv |-> xd, sconv |-> xs],
                                                     [name |-> "xs", t |-> TList(K1), dconv |-> <<>>, sconv |-> <<>>]>>],
   \* a NamedTuple: a Collection for the visitor, an object for its fields
   N  |-> [kind |-> "data", sup |-> "", fields |-> <<[name |-> "x", t |-> K1, dconv |-> <<>>, sconv |-> <<>>]>>],
   H2 |-> [kind |-> "data", sup |-> "", fields |-> <<[name |-> "x", t |-> K1, dconv |-> <<flk>>, sconv |-> <<>>]>>]]

\* sequences of length <= 2 without repetition
Seqs2(P) == {<<>>} \cup {<<a>> : a \in P} \cup {s \in P \X P : s[1] # s[2]}

DPool == IF Tier = "quick" THEN {fi, fs, fk3, fw} ELSE {fi, fic, fs, fl, fw, fk3}
EnvsD == {[ct |-> CT(xd, <<>>), regD |-> [K1 |-> r1, K2 |-> r2, K3 |-> <<f3>>, K4 |-> <<>>, W |-> <<>>, H |-> <<>>, N |-> <<>>, H2 |-> <<>>],
           regS |-> [K1 |-> <<>>, K2 |-> <<>>, K3 |-> <<>>, K4 |-> <<>>, W |-> <<>>, H |-> <<>>, N |-> <<>>, H2 |-> <<>>], via |-> via]
            : r1 \in Seqs2(DPool) \cup {<<fh>>, <<fh, fi>>, <<fs, fh>>}, r2 \in {<<>>, <<f2>>}, xd \in {<<>>, <<fs>>}, via \in {"reg", "param"}}
DynsD == {<<>>, <<IdAll>>, <<IdOf(K1)>>, <<fs>>, <<fi, fs>>, <<f2>>, <<fk3sub>>, <<fs, IdAll>>}
\* for the deque roots: a dynamic conversion meant for the ELEMENTS, behind the deque's own conversion
DynsDq == {<<>>, <<f3s>>, <<fs>>}
DynsSq == {<<>>, <<S("ts", K3, TStr, "none", "func")>>, <<ts("none", "func")>>}
DqRoots == {TDeque(K3), TDeque(K1), TList(TDeque(K3))}

SPool(inh, form) == IF Tier = "quick" THEN {ti(inh, form), tl(inh, form), tk3(inh, form)}
                    ELSE {ti(inh, form), ts(inh, form), tl(inh, form), tw(inh, form), tk3(inh, form), tlk(inh, form)}
EnvsS == {[ct |-> CT(<<>>, xs), regD |-> [K1 |-> <<>>, K2 |-> <<>>, K3 |-> <<>>, K4 |-> <<>>, W |-> <<>>, H |-> <<>>, N |-> <<>>, H2 |-> <<>>],
           regS |-> [K1 |-> r1, K2 |-> r2, K3 |-> <<ti3>>, K4 |-> <<>>, W |-> <<>>, H |-> <<>>, N |-> <<>>, H2 |-> <<>>], via |-> via]
            : r1 \in {<<>>} \cup {<<c>> : c \in UNION {SPool(f[1], f[2]) : f \in Forms}},
              r2 \in {<<>>, <<ts2>>, <<ts2ni>>}, xs \in {<<>>, <<ts("none", "func")>>}, via \in {"reg", "param"}}
DynsS == {<<>>, <<IdAll>>, <<IdOf(K1)>>, <<ts("none", "func")>>, <<tl("none", "func")>>, <<tk3sub>>,
          <<S("ts2", K2, TStr, "none", "func"), ti("none", "func")>>}

Roots == {K1, K2, K4, TList(K1), TOpt(K1), TUni(<<K1, TInt>>), TDict(K1), TTup(<<K1, TInt>>), H, TList(H), TUni(<<K3, K1>>), N, TList(N)}

\* ---- data for deserialization
Leaves == {DInt(1), DInt(13), DStr("a"), DStr("bad"), DNull, DArr(<<DInt(1), DInt(2)>>), DArr(<<DInt(13)>>),
           DObj(<< <<"w", DInt(1)>> >>), DObj(<< <<"w", DStr("a")>> >>),
           \* shapes of the recursive graph K1 <- H2{x: K1 <- List[K1]}
           DObj(<< <<"x", DArr(<<>>)>> >>), DObj(<< <<"x", DArr(<< DObj(<< <<"x", DArr(<<>>)>> >>), DInt(1) >>)>> >>)}
HData == {DObj(<< <<"x", a>>, <<"xs", DArr(<<b>>)>> >>) : a \in {DInt(1), DStr("a"), DStr("bad"), DInt(13)}, b \in {DInt(1), DStr("a")}}
         \cup {DObj(<< <<"x", DInt(1)>> >>), DObj(<< <<"x", DInt(1)>>, <<"xs", DArr(<<>>)>>, <<"y", DInt(1)>> >>)}
NData == {DObj(<< <<"x", a>> >>) : a \in {DInt(1), DStr("a"), DStr("bad"), DInt(13)}} \cup {DObj(<<>>), DInt(1)}
DataFor(T) ==
  CASE T.k = "cls" /\ T.n = "H" -> HData \cup {DInt(1)}
    [] T.k = "cls" /\ T.n = "N" -> NData
    [] T.k = "list" /\ T.e = N  -> {DArr(<<h>>) : h \in NData}
    [] T.k = "deque" -> {DArr(<<a>>) : a \in Leaves} \cup {DArr(<<DInt(1), DStr("a")>>), DArr(<<>>), DInt(1)}
    [] T.k = "list" /\ T.e.k = "deque" -> {DArr(<< DArr(<<a>>) >>) : a \in {DInt(1), DStr("a"), DInt(13)}} \cup {DArr(<<>>)}
    [] T.k = "list" /\ T.e = H  -> {DArr(<<h>>) : h \in HData} \cup {DArr(<<>>)}
    [] T.k = "list"  -> {DArr(<<a>>) : a \in Leaves} \cup {DArr(<<DInt(1), DStr("a")>>), DArr(<<DStr("x"), DInt(13)>>), DArr(<<>>), DInt(1)}
    [] T.k = "dict"  -> {DObj(<< <<"k", a>> >>) : a \in Leaves} \cup {DObj(<<>>), DInt(1)}
    [] T.k = "tuple" -> {DArr(<<a, DInt(5)>>) : a \in Leaves} \cup {DArr(<<DInt(1)>>)}
    [] OTHER -> Leaves

\* ---- values for serialization
Inst(c) == Opq(c, "mk", DInt(4))
HVal(c) == VInst("H", << <<"x", Inst(c)>>, <<"xs", VList(<<Inst("K1"), Inst(c)>>)>> >>)
NVal(c) == VInst("N", << <<"x", Inst(c)>> >>)
ValuesFor(T) ==
  CASE T.k = "cls" /\ T.n = "K1" -> {Inst("K1"), Inst("K2")}
    [] T.k = "cls" /\ T.n = "N"  -> {NVal("K1"), NVal("K2")}
    [] T.k = "list" /\ T.e = N   -> {VList(<<NVal("K1")>>)}
    [] T.k = "deque" -> {[k |-> "deque", a |-> <<Opq(T.e.n, "mk", DInt(4)), Opq(T.e.n, "mk", DInt(5))>>], [k |-> "deque", a |-> <<>>]}
    [] T.k = "list" /\ T.e.k = "deque" -> {VList(<< [k |-> "deque", a |-> <<Opq("K3", "mk", DInt(4))>>] >>)}
    [] T.k = "cls" /\ T.n = "K2" -> {Inst("K2"), Inst("K4")}
    [] T.k = "cls" /\ T.n = "K4" -> {Inst("K4")}
    [] T.k = "cls" /\ T.n = "H"  -> {HVal("K1"), HVal("K2")}
    [] T.k = "list" /\ T.e = H   -> {VList(<<HVal("K1")>>), VList(<<>>)}
    [] T.k = "list"  -> {VList(<<Inst("K1"), Inst("K2")>>), VList(<<>>)}
    [] T.k = "dict"  -> {VDict(<< <<DStr("k"), Inst("K1")>> >>)}
    [] T.k = "tuple" -> {VTuple(<<Inst("K1"), DInt(5)>>)}
    [] T = TOpt(K1)  -> {Inst("K1"), DNull}
    [] T = TUni(<<K1, TInt>>) -> {Inst("K1"), Inst("K2"), DInt(5)}
    [] T = TUni(<<K3, K1>>)   -> {Inst("K1"), Opq("K3", "mk", DInt(4))}

Cfgs == IF Dir = "d" THEN {[E |-> e, T |-> t, dyn |-> dy] : e \in EnvsD, t \in Roots, dy \in DynsD}
                             \cup {[E |-> e, T |-> t, dyn |-> dy] : e \in EnvsD, t \in DqRoots, dy \in DynsDq}
        ELSE {[E |-> e, T |-> t, dyn |-> dy] : e \in EnvsS, t \in Roots, dy \in DynsS}
             \cup {[E |-> e, T |-> t, dyn |-> dy] : e \in EnvsS, t \in DqRoots, dy \in DynsSq}

OutD(c) == [d \in DataFor(c.T) |-> VD(c.E, c.T, c.dyn, d)]
OutS(c) == [v \in ValuesFor(c.T) |-> VS(c.E, c.T, c.dyn, v)]
Pairs(f) == LET s == SetToSeq(DOMAIN f) IN [i \in DOMAIN s |-> [in |-> s[i], out |-> f[s[i]]]]

ASSUME Emit => PrintT(ToJson([header |-> TRUE, tier |-> Tier, dir |-> Dir]))

Init == cfg \in Cfgs /\ phase = "start"
Eval == /\ phase = "start" /\ phase' = "done" /\ UNCHANGED cfg
        /\ Emit => PrintT(ToJson(
             IF Dir = "d"
             THEN [E |-> cfg.E, T |-> cfg.T, dyn |-> cfg.dyn, plain |-> PlainD(cfg.E, cfg.T, cfg.dyn),
                   cases |-> IF SupD(cfg.E, cfg.T, cfg.dyn) THEN Pairs(OutD(cfg)) ELSE <<>>]
             ELSE [E |-> cfg.E, T |-> cfg.T, dyn |-> cfg.dyn, plain |-> PlainS(cfg.E, cfg.T, cfg.dyn),
                   cases |-> IF SupS(cfg.E, cfg.T, cfg.dyn) THEN Pairs(OutS(cfg)) ELSE <<>>]))
Next == Eval
Spec == Init /\ [][Next]_vars

---------------------------------------------------------------------------
\* LAWS (deserialization)
E == cfg.E
SupportedD == SupD(E, cfg.T, cfg.dyn)

\* a single non-catching conversion rejects / raises exactly as its source does, and wraps what it accepts
RejectsAsSource ==
  (Dir = "d" /\ cfg.T.k = "cls" /\ SupportedD) =>
    LET s == StepD(E, cfg.T, cfg.dyn) IN
    IF ~(Len(s.convs) = 1 /\ s.convs[1].id # "identity") THEN TRUE ELSE
      \A d \in DataFor(cfg.T) :
        LET c == s.convs[1]
            src == VD(E, c.src, SubConv(c, s.next), d)
            out == VD(E, cfg.T, cfg.dyn, d) IN
        /\ (src.kind = "bad" => out.kind = "bad")
        /\ (src.kind = "raise" => out.kind = "raise")
        /\ (src.kind = "ok" /\ src.v \notin c.bad => out = OkV(Opq(c.tgt.n, c.id, src.v)))
        /\ (src.kind = "ok" /\ src.v \in c.bad => out.kind = IF c.catch THEN "bad" ELSE "raise")
\* identity bypasses whatever is registered
IdentityBypasses ==
  (Dir = "d" /\ cfg.dyn = <<IdAll>> /\ Convertible(cfg.T)) =>
     PlainD(E, cfg.T, cfg.dyn) = StructPlainD(E, cfg.T, <<>>)
\* the dynamic conversion never reaches the fields of an object
DynamicIsLocalD ==
  (Dir = "d" /\ cfg.T \in {H, N}) => PlainD(E, cfg.T, cfg.dyn) = PlainD(E, cfg.T, <<>>)
\* ... but reaches the elements of containers and unions (the generic identity applies to the
\* container itself and is consumed there: docs, "bypass registered conversion", note)
NoGenericId == \A i \in DOMAIN cfg.dyn : cfg.dyn[i] # IdAll
ContainersReachD ==
  (Dir = "d" /\ cfg.T = TList(K1) /\ NoGenericId) =>
     PlainD(E, cfg.T, cfg.dyn) = (LET p == PlainD(E, K1, cfg.dyn) IN IF p.k = "unsup" THEN TUnsup ELSE TList(p))
\* placement: a custom default_conversion parameter behaves as the registry (no inheritance in this direction)
\* LAWS (serialization)
SerializersInherited ==
  (/\ Dir = "s" /\ cfg.T = K2 /\ cfg.dyn = <<>> /\ E.via = "reg" /\ E.regS["K2"] = <<>> /\ E.regS["K1"] # <<>>
   /\ ~(E.regS["K1"][1].form \in {"obj", "lazy"} /\ E.regS["K1"][1].inh = "false")) =>
        PlainS(E, K2, <<>>) = PlainS(E, K1, <<>>)
DynamicIsLocalS ==
  (Dir = "s" /\ cfg.T \in {H, N}) => PlainS(E, cfg.T, cfg.dyn) = PlainS(E, cfg.T, <<>>)
ContainersReachS ==
  (Dir = "s" /\ cfg.T = TList(K1) /\ NoGenericId) =>
     PlainS(E, cfg.T, cfg.dyn) = (LET p == PlainS(E, K1, cfg.dyn) IN IF p.k = "unsup" THEN TUnsup ELSE TList(p))
IdentityBypassesS ==
  (Dir = "s" /\ cfg.dyn = <<IdAll>> /\ Convertible(cfg.T)) =>
     PlainS(E, cfg.T, cfg.dyn) = StructPlainS(E, cfg.T, <<>>)
\* the serialized form is a value of the plain type: the commuting square of the schemas
=============================================================================
