--------------------------- MODULE MC_Validators ----------------------------
(* Emission of the C10 cases with the behaviour the specification predicts. *)
EXTENDS Validators, Json, IOUtils

Emit == "EMIT" \in DOMAIN IOEnv /\ IOEnv.EMIT = "1"
\* evaluated once per distinct state by the breadth-first search
EmitDone == (phase = "done" /\ Emit) =>
              PrintT(ToJson([case |-> case, ran |-> ran, errs |-> errs, constructed |-> constructed]))
=============================================================================
