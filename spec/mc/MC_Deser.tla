------------------------------ MODULE MC_Deser ------------------------------
(***************************************************************************)
(* Pipeline state machine over the reference semantics: pick a type and an *)
(* option set (Init), pick a datum relevant to the type (PickData), run    *)
(* the deserialization (Run).  TLC evaluates the invariants in every state *)
(* and, when EMIT=1, prints each case with the outcome the specification   *)
(* predicts, for replay in the real code (spec -> code).                   *)
(***************************************************************************)
EXTENDS Universe, Dialects, Json, IOUtils

CONSTANTS Tier,       \* "d0" | "d1" | "d2" | "obj" | "u": which slice of the type universe
          Coerce,     \* BOOLEAN: is coercion part of the option space of this run
          Deviations, \* named deviations of the implementation-shaped layer (negative checks)
          SchemaGaps, \* known design gaps of the schema builder excluded from SchemaAgrees
          VocabularyGaps \* keywords known to leak into dialects that do not have them (known finding)
VARIABLES T, O, d, res, phase
vars == <<T, O, d, res, phase>>

Types == CASE Tier = "d0" -> TypesD0
           [] Tier = "d1" -> TypesD0 \cup TypesD1
           [] Tier = "d2" -> TypesD2
           [] Tier = "obj" -> ObjTypes
           [] Tier = "u"  -> TypesU

Shard   == IF "SHARD" \in DOMAIN IOEnv THEN IOEnv.SHARD ELSE "0/1"
Emit    == "EMIT" \in DOMAIN IOEnv /\ IOEnv.EMIT = "1"

\* the universe itself is emitted once, so that the replay builds exactly these classes
ASSUME Emit => PrintT(ToJson([header |-> TRUE, classes |-> UClasses, enums |-> UEnums,
                              senv |-> UStrAttr, aliasers |-> UAliasers]))

Opts == { Opt(a, f, c, al) : a \in BOOLEAN, f \in BOOLEAN, c \in (IF Coerce THEN BOOLEAN ELSE {FALSE}), al \in {"id", "upper"} }
\* options that cannot matter for a type without objects are not multiplied
RECURSIVE HasObj(_)
HasObj(t) == CASE t.k = "obj" -> TRUE
               [] t.k \in {"newtype"} -> HasObj(t.sup)
               [] t.k = "annot" -> HasObj(t.t)
               [] t.k = "coll"  -> HasObj(t.e)
               [] t.k = "tuple" -> \E i \in DOMAIN t.es : HasObj(t.es[i])
               [] t.k = "map"   -> HasObj(t.vt)
               [] t.k = "union" -> \E i \in DOMAIN t.alts : HasObj(t.alts[i])
               [] t.k = "dunion" -> TRUE
               [] OTHER -> FALSE
OptsFor(t) == IF HasObj(t) THEN Opts ELSE {Opt(FALSE, FALSE, c, "id") : c \in (IF Coerce THEN BOOLEAN ELSE {FALSE})}

\* C06: the schema the builder emits for T accepts exactly the conforming data, on the common
\* semantic domain (no integer-valued float: `integer` accepts 1.0 in JSON Schema, deserialize(int, 1.0) does not)
RECURSIVE HasIntFloat(_)
HasIntFloat(x) == CASE x.k = "float" -> x.h % 2 = 0
                    [] x.k = "arr" -> \E i \in DOMAIN x.a : HasIntFloat(x.a[i])
                    [] x.k = "obj" -> \E i \in DOMAIN x.o : HasIntFloat(x.o[i][2])
                    [] OTHER -> FALSE
SchemaAccepts == Validates(Ctx(O), "d", SchemaOf(Ctx(O), "d", T, <<>>, {}), d)
\* fall_back_on_default (option or metadata) is a deserialization-only leniency that no schema
\* option mirrors: outside the "same options" of the property
RECURSIVE UsesFbd(_, _)
UsesFbd(t, seen) ==
  CASE t.k = "obj" -> t.cls \notin seen /\ \E i \in DOMAIN UClasses[t.cls].fields :
                          UClasses[t.cls].fields[i].fbd \/ UsesFbd(UClasses[t.cls].fields[i].type, seen \cup {t.cls})
    [] t.k = "newtype" -> UsesFbd(t.sup, seen)
    [] t.k = "annot" -> UsesFbd(t.t, seen)
    [] t.k = "coll"  -> UsesFbd(t.e, seen)
    [] t.k = "tuple" -> \E i \in DOMAIN t.es : UsesFbd(t.es[i], seen)
    [] t.k = "map"   -> UsesFbd(t.vt, seen)
    [] t.k \in {"union", "dunion"} -> \E i \in DOMAIN t.alts : UsesFbd(t.alts[i], seen)
    [] OTHER -> FALSE
\* known design gaps between the schema builder and the data model (each one a KNOWN FINDING whose
\* negative check is SchemaAgrees with the gap removed from SchemaGaps)
\* a regular field whose external name matches the pattern of a pattern-properties field of the class
PatOverlap(cls) ==
  LET fs == UClasses[cls].fields IN
  \E i, j \in DOMAIN fs : /\ fs[i].props = "pat" /\ fs[j].props = "no" /\ ~fs[j].flat
                          /\ \E n \in DOMAIN Ctx(O).S[Ext(Ctx(O), fs[j])].pats : Ctx(O).S[Ext(Ctx(O), fs[j])].pats[n] = fs[i].pat
RECURSIVE UsesFeature(_, _, _)
UsesFeature(t, feat, seen) ==
  CASE t.k = "obj" ->
         /\ t.cls \notin seen
         /\ \/ feat = "patoverlap" /\ PatOverlap(t.cls)
            \/ \E i \in DOMAIN UClasses[t.cls].fields :
                  LET f == UClasses[t.cls].fields[i] IN
                  \/ feat = "flattened" /\ f.flat
                  \/ UsesFeature(f.type, feat, seen \cup {t.cls})
    [] t.k = "newtype" -> UsesFeature(t.sup, feat, seen)
    [] t.k = "annot" -> UsesFeature(t.t, feat, seen)
    [] t.k = "coll"  -> UsesFeature(t.e, feat, seen)
    [] t.k = "tuple" -> \E i \in DOMAIN t.es : UsesFeature(t.es[i], feat, seen)
    [] t.k = "map"   -> (feat = "mapkeys" /\ t.kt # TPrim("str")) \/ UsesFeature(t.vt, feat, seen)
    [] t.k = "union" -> \E i \in DOMAIN t.alts : UsesFeature(t.alts[i], feat, seen)
    [] t.k = "dunion" -> feat = "discriminated" \/ \E i \in DOMAIN t.alts : UsesFeature(t.alts[i], feat, seen)
    [] OTHER -> FALSE
InSchemaDomain == /\ ~O.coerce /\ ~O.fbd /\ ~UsesFbd(T, {}) /\ ~HasIntFloat(d)
                  /\ \A g \in SchemaGaps : ~UsesFeature(T, g, {})
SchemaAgrees == (phase = "done" /\ InSchemaDomain /\ ~IsUnspec(res)) => (SchemaAccepts = res.ok)

\* C18: the converted schema accepts, under the target dialect's own rules, what the draft 2020-12
\* schema accepts -- up to what OpenAPI 3.0 cannot express and drops -- and uses only its vocabulary
Schema2020 == SchemaOf(Ctx(O), "d", T, <<>>, {})
DialectEquivalent ==
  phase = "done" =>
    \A V \in {"2019-09", "draft-07", "oas30"} :
       LET base == Validates(Ctx(O), "d", Schema2020, d)
           conv == ValidatesV(Ctx(O), "d", V, Convert(Schema2020, V), d) IN
       IF (V = "oas30" /\ UsesDropped(Schema2020))
          \* the draft-07 schema of an object with flattened fields keeps unevaluatedProperties, which
          \* draft-07 validators ignore (known finding F-dialect-vocabulary): it can only accept more
          \/ (V = "draft-07" /\ UsesFeature(T, "flattened", {}))
       THEN base => conv ELSE base = conv
VocabularyOnly ==
  phase = "type" => \A V \in {"2019-09", "draft-07", "oas30"} :
     LET bad == BadKeywords(Convert(Schema2020, V), V) \ VocabularyGaps IN
     bad = {} \/ (PrintT(ToJson([badkw |-> bad, version |-> V, type |-> T])) /\ FALSE)

Init == /\ T \in Types
        /\ O \in OptsFor(T)
        /\ d = DNull /\ res = Ok(DNull) /\ phase = "type"

PickData == /\ phase = "type"
            /\ d' \in DataFor(Ctx(O), T)
            /\ phase' = "data"
            /\ UNCHANGED <<T, O, res>>

Run == /\ phase = "data"
       /\ res' = RD(Ctx(O), T, <<>>, d)
       /\ phase' = "done"
       /\ UNCHANGED <<T, O, d>>
       /\ Emit => PrintT(ToJson([type |-> T, opts |-> O, data |-> d, expect |-> res',
                                 ambig |-> Ambig(Ctx(O), T, {}),
                                 \* C06: is the case in the common domain, which known gaps does the type
                                 \* touch, does the modelled schema accept the datum
                                 sdom |-> (~O.coerce /\ ~O.fbd /\ ~UsesFbd(T, {}) /\ ~HasIntFloat(d)),
                                 gaps |-> {g \in {"flattened", "mapkeys", "discriminated", "patoverlap"} : UsesFeature(T, g, {})},
                                 saccept |-> Validates(Ctx(O), "d", SchemaOf(Ctx(O), "d", T, <<>>, {}), d),
                                 \* ... and with uniqueItems enforced for set-typed positions too (what a validator does)
                                 saccept_u |-> LET c2 == Ctx([O EXCEPT !.setuniq = TRUE]) IN
                                               Validates(c2, "d", SchemaOf(c2, "d", T, <<>>, {}), d),
                                 \* C18: acceptance by the converted schema under each dialect's own rules
                                 \* (uniqueItems enforced for sets, as validators do), and use of dropped keywords
                                 vaccept |-> LET c2 == Ctx([O EXCEPT !.setuniq = TRUE])
                                                 s2 == SchemaOf(c2, "d", T, <<>>, {}) IN
                                             [V \in {"2019-09", "draft-07", "oas30"} |-> ValidatesV(c2, "d", V, Convert(s2, V), d)],
                                 dropped |-> UsesDropped(SchemaOf(Ctx(O), "d", T, <<>>, {}))]))

Next == PickData \/ Run
Spec == Init /\ [][Next]_vars

---------------------------------------------------------------------------
\* Invariants of the reference semantics itself (they must hold for the
\* property statements to be consistent with each other).

\* C01/C02: a rejection reports at least one violation, an acceptance none
ResultShape == phase = "done" => (res.ok <=> res.e = {})

\* C02: every reported location is a path of the datum (the parent of the
\* absent key for "missing"); no entry points outside the input
RECURSIVE PathIn(_, _)
PathIn(x, loc) ==
  IF loc = <<>> THEN TRUE
  ELSE CASE x.k = "arr" -> \E i \in DOMAIN x.a : Idx(i) = loc[1] /\ PathIn(x.a[i], Tail(loc))
         [] x.k = "obj" -> HasKey(x.o, loc[1]) /\ PathIn(Get(x.o, loc[1]), Tail(loc))
         [] OTHER -> FALSE
LocsInData ==
  phase = "done" /\ ~res.ok =>
    \A q \in res.e \cup res.x :
       IF q[2] = "missing" THEN PathIn(d, SubSeq(q[1], 1, Len(q[1]) - 1)) /\ ~PathIn(d, q[1])
       ELSE PathIn(d, q[1])

\* C01: additional_properties only widens acceptance; with it no "unexpected" is reported
AdditionalWidens ==
  phase = "done" /\ res.ok /\ ~O.addl =>
      RD(Ctx([O EXCEPT !.addl = TRUE]), T, <<>>, d).ok
NoUnexpectedWhenAllowed ==
  phase = "done" /\ O.addl => \A q \in res.e \cup res.x : q[2] # "unexpected"

\* C13: the strategy the code selects for a union (Optional / by-type dispatch / in order) gives
\* the outcome of "the first accepting alternative" -- same acceptance, same image up to
\* the int/float ambiguity, errors within the sandwich
Impl == RD(Ctx([O EXCEPT !.impl = TRUE, !.dev = Deviations]), T, <<>>, d)
DispatchEqSequential ==
  phase = "done" /\ ~IsUnspec(res) /\ ~IsUnspec(Impl) =>
     /\ Impl.ok = res.ok
     /\ res.ok => ImageEq(Ctx(O), T, res.v, Impl.v)
     /\ ~res.ok => Satisfied(res.e, Impl.e) /\ Permitted(Impl.e, res.e, res.x)

\* C01: the image of conforming data re-conforms when read as Any (it is JSON-shaped
\* data again only for Any; here: accepted data never carries a "py" kind)
\* C14 (design level): coercion only widens acceptance
CoerceWidens ==
  phase = "done" /\ res.ok =>
      RD(Ctx([O EXCEPT !.coerce = TRUE]), T, <<>>, d).ok
=============================================================================
