------------------------------ MODULE MC_Order -------------------------------
(* Every ordering specification over up to N elements: TLC checks that the    *)
(* transcription of sort_by_order obeys the documented rules on well-formed   *)
(* specs, never duplicates, and -- deviation aside -- never loses an element; *)
(* each spec is emitted with the predicted order for replay in the four views *)
EXTENDS Ordering, Json, IOUtils

CONSTANTS N,            \* number of elements
          NMethods,     \* how many of the last elements are serialized methods
          WithOverrides,\* BOOLEAN: also enumerate class-level order(...) on a base class and on the class
          SeqForm,      \* BOOLEAN: include the sequence form order([...]) among the class-level choices
          Deviations
VARIABLES elts, phase, res, ovs
vars == <<elts, phase, res, ovs>>

NamePool == <<"a", "b", "c", "d", "e">>
Targets  == {NamePool[i] : i \in 1..N} \cup {"zz"}          \* "zz" is never an element: dangling
Ords(n)  == IF WithOverrides THEN {ONone, OVal(1), OAfter(NamePool[1])} \ {OAfter(n)}
            ELSE {ONone} \cup {OVal(v) : v \in {-1, 0, 1, 999}}
                 \cup {OAfter(x) : x \in Targets \ {n}} \cup {OBefore(x) : x \in Targets \ {n}}
\* a class-level mapping overrides at most one element here ...
MapChoices == {<<>>} \cup {<< <<NamePool[i], o, "map">> >> : i \in 1..N, o \in {OVal(-1), OVal(999), OAfter(NamePool[N]), OBefore(NamePool[1])}}
\* ... and the SEQUENCE form order([x0, x1, ...]) is the mapping {x1: after x0, x2: after x1, ...}
\* (entries tagged "seq": the bridge writes them back as the list)
SeqOv(s) == [i \in 1..(Len(s) - 1) |-> <<s[i + 1], OAfter(s[i]), "seq">>]
SeqChoices == {SeqOv(<<NamePool[p[1]], NamePool[p[2]]>>) : p \in {q \in (1..N) \X (1..N) : q[1] # q[2]}}
              \cup {SeqOv(<<NamePool[p[1]], NamePool[p[2]], NamePool[p[3]]>>) :
                       p \in {q \in (1..N) \X (1..N) \X (1..N) : q[1] # q[2] /\ q[1] # q[3] /\ q[2] # q[3]}}
OvChoices == MapChoices \cup (IF SeqForm THEN SeqChoices ELSE {})

Init == /\ elts = <<>> /\ phase = "build" /\ res = <<>> /\ ovs = << <<>>, <<>> >>
AddElt == /\ phase = "build" /\ Len(elts) < N
          /\ \E o \in Ords(NamePool[Len(elts) + 1]) :
                elts' = Append(elts, [name |-> NamePool[Len(elts) + 1], ord |-> o, method |-> Len(elts) >= N - NMethods])
          /\ UNCHANGED <<phase, res, ovs>>
\* ovs[1]: order(...) on the base class (declares the first elements), ovs[2]: on the class itself
ChooseOv == /\ phase = "build" /\ Len(elts) = N /\ WithOverrides
            /\ \E b \in MapChoices, c \in OvChoices :
                  /\ \A k \in DOMAIN b : b[k][2].x # b[k][1]
                  /\ \A k \in DOMAIN c : c[k][2].x # c[k][1]
                  /\ ovs' = <<b, c>>
            /\ phase' = "ov" /\ UNCHANGED <<elts, res>>
Eff == Effective(elts, ovs)
Sort == /\ (phase = "build" /\ Len(elts) = N /\ ~WithOverrides) \/ phase = "ov"
        /\ res' = SortByOrderIdx(Eff)
        /\ phase' = "done" /\ UNCHANGED <<elts, ovs>>
Next == AddElt \/ ChooseOv \/ Sort
Spec == Init /\ [][Next]_vars

Done == phase = "done"
\* C16 on well-formed specifications: the documented rules determine the order
RulesOnWellFormed == (Done /\ WellFormed(Eff)) => RulesHold(Eff, res)
\* never duplicates -- whatever the specification
NoDuplicate == Done => \A p, q \in DOMAIN res : p # q => res[p] # res[q]
\* never loses: holds on well-formed specs; on ill-formed ones the pinned tree drops the
\* orphans (known finding), which the negative configuration exhibits
NoLoss == (Done /\ WellFormed(Eff)) => {res[k] : k \in DOMAIN res} = DOMAIN elts
NoLossEvenIllFormed == Done => {res[k] : k \in DOMAIN res} = DOMAIN elts

Emit == "EMIT" \in DOMAIN IOEnv /\ IOEnv.EMIT = "1"
EmitDone == (Emit /\ Done) =>
   LET fieldsOnly == SelectSeq(Eff, LAMBDA e : ~e.method) IN
   PrintT(ToJson([elts |-> elts, ovs |-> ovs, wf |-> WellFormed(Eff), order |-> SortByOrder(Eff),
                  wf_fields |-> WellFormed(fieldsOnly), order_fields |-> SortByOrder(fieldsOnly)]))
=============================================================================
