-------------------------------- MODULE MC_Ser -------------------------------
(***************************************************************************)
(* Pipeline over the serialization semantics: pick a type and options      *)
(* (Init), pick a typed value of the type (PickValue: the images of the    *)
(* conforming data of the deserialization universe), serialize (Run).      *)
(* Invariants relate the two reference semantics (round trip, C05) and     *)
(* state the JSON-only law (C04); with EMIT=1 every case is printed with   *)
(* the predicted JSON image for replay in the real code.                   *)
(***************************************************************************)
EXTENDS Universe, JsonSchema, Json, IOUtils

CONSTANTS Tier
VARIABLES T, O, v, res, phase
vars == <<T, O, v, res, phase>>

Emit == "EMIT" \in DOMAIN IOEnv /\ IOEnv.EMIT = "1"
ASSUME Emit => PrintT(ToJson([header |-> TRUE, classes |-> UClasses, enums |-> UEnums,
                              senv |-> UStrAttr, aliasers |-> UAliasers]))

Types == CASE Tier = "d0" -> TypesD0
           [] Tier = "d1" -> TypesD0 \cup TypesD1
           [] Tier = "d2" -> TypesD2
           [] Tier = "u"  -> TypesU

SOpt(exn, exd, addl, ali) == [Opt(addl, FALSE, FALSE, ali) EXCEPT !.impl = FALSE]
                             @@ [exn |-> exn, exd |-> exd]
RECURSIVE HasObjS(_)
HasObjS(t) == CASE t.k \in {"obj", "dunion", "any"} -> TRUE
                [] t.k = "newtype" -> HasObjS(t.sup)
                [] t.k = "annot" -> HasObjS(t.t)
                [] t.k = "coll"  -> HasObjS(t.e)
                [] t.k = "tuple" -> \E i \in DOMAIN t.es : HasObjS(t.es[i])
                [] t.k = "map"   -> HasObjS(t.vt)
                [] t.k = "union" -> \E i \in DOMAIN t.alts : HasObjS(t.alts[i])
                [] OTHER -> FALSE
SOptsFor(t) == IF HasObjS(t)
               THEN {SOpt(n, dd, a, al) : n \in BOOLEAN, dd \in BOOLEAN, a \in {FALSE}, al \in {"id", "upper"}}
                    \cup {SOpt(FALSE, FALSE, TRUE, "id"), SOpt(FALSE, FALSE, TRUE, "upper")}
               ELSE {SOpt(FALSE, FALSE, FALSE, "id")}

\* values of T: typed images of the conforming data (deserialized with default options)
Ctx0 == Ctx(Opt(FALSE, FALSE, FALSE, "id"))
BaseValuesFor(t) == {RD(Ctx0, t, <<>>, x).v : x \in {y \in DataFor(Ctx0, t) : RD(Ctx0, t, <<>>, y).ok /\ ~IsUnspec(RD(Ctx0, t, <<>>, y))}}
\* a TypedDict value is a plain dict: it may hold keys that are not declared -- an unrelated one, and one
\* equal to the EXTERNAL name (under either aliaser) of a declared key (the declared key wins)
TDExtras(t) ==
  IF t.k = "obj" /\ UClasses[t.cls].kind = "typeddict"
  THEN LET fs == UClasses[t.cls].fields
           names == {fs[i].name : i \in DOMAIN fs}
           \* the external names of the declared keys PRESENT in the value (an undeclared key spelt like the external
           \* name of an absent key would simply be a value that is not of the type)
           exts(bv) == {Ext(Ctx(Opt(FALSE, FALSE, FALSE, al)), fs[i]) : i \in {j \in DOMAIN fs : HasKey(bv.o, DStr(fs[j].name))},
                                                                          al \in {"id", "upper"}} \ names
       IN UNION {{VDict(bv.o \o << <<DStr(n), DStr("x")>> >>) : n \in exts(bv) \cup {"zz"}} : bv \in {w \in BaseValuesFor(t) : w.k = "dict"}}
  ELSE {}
\* a tuple is a value of an abstract Sequence[X] as well
SeqExtras(t) == IF t.k = "coll" /\ t.c = "seq" THEN {VTuple(w.a) : w \in {x \in BaseValuesFor(t) : x.k = "list"}} ELSE {}
\* an instance of a subclass is a value of the class (serialized with the fields of the DECLARED class), also inside containers
SubclassesOf(c) == {s \in DOMAIN UClasses : s # c /\ IsSubclass(Ctx0, s, c)}
RECURSIVE SubExtras(_)
SubExtras(t) ==
  CASE t.k = "obj" -> UNION {BaseValuesFor(TObj(s)) : s \in SubclassesOf(t.cls)}
    [] t.k = "coll" /\ t.c = "list" /\ t.e.k = "obj" -> {VList(<<w>>) : w \in SubExtras(t.e)}
    [] t.k = "map" /\ t.vt.k = "obj" -> {VDict(<< <<DStr("k"), w>> >>) : w \in SubExtras(t.vt)}
    [] OTHER -> {}
ValuesFor(t) == BaseValuesFor(t) \cup TDExtras(t) \cup SeqExtras(t) \cup SubExtras(t)

\* the bijective fragment of C05: no asymmetric skip, no serialized method, no field dropped
\* from the constructor, no type whose images are ambiguous
RECURSIVE KindsOf(_)
\* JSON kinds of the data a type may accept / produce
KindsOf(t) == CASE t.k = "prim" -> (CASE t.p = "none" -> {"null"} [] t.p = "bool" -> {"bool"} [] t.p = "int" -> {"int"}
                                       [] t.p = "float" -> {"int", "float"} [] t.p = "str" -> {"str"} [] OTHER -> {})
                [] t.k = "any" -> {"null", "bool", "int", "float", "str", "arr", "obj"}
                [] t.k = "newtype" -> KindsOf(t.sup)
                [] t.k = "annot" -> KindsOf(t.t)
                [] t.k \in {"coll", "tuple"} -> {"arr"}
                [] t.k \in {"map", "obj", "dunion"} -> {"obj"}
                [] t.k = "lit" -> {IF t.vals[i].k = "float" THEN "int" ELSE t.vals[i].k : i \in DOMAIN t.vals} \cup
                                  {t.vals[i].k : i \in DOMAIN t.vals} \cup (IF \E i \in DOMAIN t.vals : t.vals[i].k = "int" THEN {"float"} ELSE {})
                [] t.k = "enum" -> {UEnums[t.cls][i][2].k : i \in DOMAIN UEnums[t.cls]} \cup
                                   (IF \E i \in DOMAIN UEnums[t.cls] : UEnums[t.cls][i][2].k = "int" THEN {"float"} ELSE {})
                [] t.k = "union" -> UNION {KindsOf(t.alts[i]) : i \in DOMAIN t.alts}
                [] OTHER -> {}
RECURSIVE RootPrim(_)
RootPrim(t) == CASE t.k = "prim" -> t.p [] t.k = "newtype" -> RootPrim(t.sup) [] t.k = "annot" -> RootPrim(t.t) [] OTHER -> ""

RECURSIVE Bijective(_, _)
Bijective(t, seen) ==
  CASE t.k = "obj" ->
         \/ t.cls \in seen
         \/ LET K == UClasses[t.cls] IN
            /\ K.smethods = <<>> /\ K.postinc = ""
            /\ \A i \in DOMAIN K.fields :
                 LET f == K.fields[i] IN
                 /\ ~f.skipd /\ ~f.skips /\ f.kind = "normal" /\ f.skip_if = "" /\ ~f.fbd /\ f.props # "pat"
                 \* a property-count constraint on an object whose defaulted fields are emitted back (class RC):
                 \* completing with defaults can leave the constrained set -- outside the fragment
                 /\ \A j \in DOMAIN f.cons : f.cons[j][1] \notin {"min_props", "max_props"}
                 /\ Bijective(f.type, seen \cup {t.cls})
    [] t.k = "newtype" -> Bijective(t.sup, seen)
    [] t.k = "annot" -> Bijective(t.t, seen)
    [] t.k = "coll"  -> Bijective(t.e, seen)
    [] t.k = "tuple" -> \A i \in DOMAIN t.es : Bijective(t.es[i], seen)
    [] t.k = "map"   -> Bijective(t.kt, seen) /\ Bijective(t.vt, seen)
    [] t.k = "union" -> /\ \A i \in DOMAIN t.alts : Bijective(t.alts[i], seen)
                        \* alternatives must not compete for the same JSON data (the first accepting
                        \* one would win); int / float overlap is the tolerated image ambiguity
                        /\ \A i, j \in DOMAIN t.alts : i < j =>
                              (KindsOf(t.alts[i]) \cap KindsOf(t.alts[j])) \subseteq
                                 (IF {RootPrim(t.alts[i]), RootPrim(t.alts[j])} = {"int", "float"} THEN {"int"} ELSE {})
    [] t.k = "dunion" -> \A i \in DOMAIN t.alts : Bijective(t.alts[i], seen)
    [] t.k = "any"   -> FALSE
    [] OTHER -> TRUE

\* C07: the serialized datum validates against the serialization schema built under the same
\* options (exclude_defaults / exclude_none as settings); known design gaps excluded
\* a regular field whose external name matches the pattern of a pattern-properties field (F-pattern-overlap)
PatOverlapS(cls) ==
  LET fs == UClasses[cls].fields IN
  \E i, j \in DOMAIN fs : /\ fs[i].props = "pat" /\ fs[j].props = "no" /\ ~fs[j].flat
                          /\ \E n \in DOMAIN Ctx(O).S[Ext(Ctx(O), fs[j])].pats : Ctx(O).S[Ext(Ctx(O), fs[j])].pats[n] = fs[i].pat
RECURSIVE UsesFeatureS(_, _, _)
UsesFeatureS(t, feat, seen) ==
  CASE t.k = "obj" -> t.cls \notin seen /\
                      (\/ feat = "patoverlap" /\ PatOverlapS(t.cls)
                       \/ \E i \in DOMAIN UClasses[t.cls].fields :
                          (feat = "flattened" /\ UClasses[t.cls].fields[i].flat)
                          \* a property-COUNT constraint carried by a field: the omission options (exclude_defaults,
                          \* exclude_none) change the count of what is emitted -- outside what C07 can ask for
                          \/ (feat = "propcount" /\ \E j \in DOMAIN UClasses[t.cls].fields[i].cons :
                                   UClasses[t.cls].fields[i].cons[j][1] \in {"min_props", "max_props"})
                          \/ UsesFeatureS(UClasses[t.cls].fields[i].type, feat, seen \cup {t.cls}))
    [] t.k = "newtype" -> UsesFeatureS(t.sup, feat, seen)
    [] t.k = "annot" -> UsesFeatureS(t.t, feat, seen)
    [] t.k = "coll"  -> UsesFeatureS(t.e, feat, seen)
    [] t.k = "tuple" -> \E i \in DOMAIN t.es : UsesFeatureS(t.es[i], feat, seen)
    [] t.k = "map"   -> UsesFeatureS(t.vt, feat, seen)
    [] t.k = "union" -> \E i \in DOMAIN t.alts : UsesFeatureS(t.alts[i], feat, seen)
    [] t.k = "dunion" -> feat = "discriminated" \/ \E i \in DOMAIN t.alts : UsesFeatureS(t.alts[i], feat, seen)
    [] t.k = "any" -> feat = "any"
    [] OTHER -> FALSE
SerSchemaAccepts == Validates(Ctx(O), "s", SchemaOf(Ctx(O), "s", T, <<>>, {}), AsData(res))
SerValidates ==
  (phase = "done" /\ ~HasSErr(res) /\ \A g \in {"flattened", "discriminated", "patoverlap", "propcount"} : ~UsesFeatureS(T, g, {}))
     => SerSchemaAccepts

Init == /\ T \in Types /\ O \in SOptsFor(T)
        /\ v = DNull /\ res = DNull /\ phase = "type"
PickValue == /\ phase = "type" /\ v' \in ValuesFor(T) /\ phase' = "value" /\ UNCHANGED <<T, O, res>>
Run == /\ phase = "value"
       /\ res' = Ser(Ctx(O), T, v)
       /\ phase' = "done" /\ UNCHANGED <<T, O, v>>
       /\ Emit => PrintT(ToJson([type |-> T, opts |-> O, value |-> v, expect |-> res',
                                 any |-> SerAny(Ctx(O), v),
                                 bij |-> Bijective(T, {}) /\ v \notin TDExtras(T) \cup SeqExtras(T) \cup SubExtras(T), ambig |-> Ambig(Ctx(O), T, {}),
                                 gaps |-> {g \in {"flattened", "discriminated", "patoverlap", "propcount"} : UsesFeatureS(T, g, {})},
                                 saccept |-> IF HasSErr(res') THEN TRUE
                                             ELSE Validates(Ctx(O), "s", SchemaOf(Ctx(O), "s", T, <<>>, {}), AsData(res'))]))
Next == PickValue \/ Run
Spec == Init /\ [][Next]_vars

---------------------------------------------------------------------------
\* C04: only JSON data comes out (no pass-through option in this model)
JsonOnly == phase = "done" => (HasSErr(res) \/ IsJson(res))

\* C04: serialize(v) without a type equals serialize(type(v), v) for class instances
AnyEqTyped == (phase = "done" /\ T.k = "obj" /\ v.k = "inst" /\ v.cls = T.cls /\ ~HasSErr(res)) => SerNorm(SerAny(Ctx(O), v)) = SerNorm(res)

\* C05: deserialize(T, serialize(T, v)) = v on the bijective fragment (same options both ways).
\* exclude_none is outside the property (it quantifies over aliasers and additional_properties):
\* a REQUIRED Optional field dropped by exclude_none cannot come back (class OR)
RoundTrip ==
  \* ... and so are TypedDict values holding undeclared keys (dropped, or shadowed by a declared key)
  (phase = "done" /\ Bijective(T, {}) /\ ~HasSErr(res) /\ ~O.exn /\ v \notin TDExtras(T) \cup SeqExtras(T) \cup SubExtras(T)) =>
     LET back == RD(Ctx(O), T, <<>>, AsData(res)) IN
       IsUnspec(back) \/ (back.ok /\ ImageEq(Ctx(O), T, v, back.v))
=============================================================================
