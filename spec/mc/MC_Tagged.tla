------------------------------ MODULE MC_Tagged -----------------------------
(* TaggedUnion classes x data x additional_properties: TLC checks that the   *)
(* code-shaped Layer M accepts exactly what "exactly one tag" (Layer R)      *)
(* accepts, with the same value, never lets an exception escape, and emits   *)
(* every case for replay on a real TaggedUnion class.                        *)
EXTENDS Tagged, Universe, Serialization, Json, IOUtils

CONSTANTS Deviations
VARIABLES tags, addl, fbd, ali, d, phase
vars == <<tags, addl, fbd, ali, d, phase>>

Emit == "EMIT" \in DOMAIN IOEnv /\ IOEnv.EMIT = "1"
ASSUME Emit => PrintT(ToJson([header |-> TRUE, classes |-> UClasses, enums |-> UEnums, senv |-> UStrAttr, aliasers |-> UAliasers]))

TagSets == { << <<"a", TInt>>, <<"b", TStr>> >>,
             << <<"a", TInt>>, <<"b", TOpt(TColl("list", TInt))>>, <<"c", TObj("P1")>> >>,
             << <<"a", TAnnot(TInt, << <<"min", 2>> >>)>>, <<"b", TUnion(<<TInt, TStr>>)>> >> }
Vals == {DInt(1), DInt(3), DStr("a"), DNull, DArr(<<DInt(1)>>), DObj(<< <<"a", DInt(1)>> >>), DBool(TRUE)}
KeyPool == {"a", "b", "c", "zz", "A", "B"}      \* "A", "B": the external names under the upper aliaser
DataPool == {DObj(<<>>), DInt(1), DArr(<<>>), DNull}
            \cup {DObj(<< <<k1, v1>> >>) : k1 \in KeyPool, v1 \in Vals}
            \cup {DObj(<< <<k1, v1>>, <<k2, v2>> >>) : k1 \in {"a", "zz", "A"}, k2 \in {"b", "zz", "c", "B"}, v1 \in {DInt(3), DStr("a")}, v2 \in {DStr("a"), DNull}}
CtxOf(a) == Ctx(Opt(a, fbd, FALSE, ali))

Init == tags \in TagSets /\ addl \in BOOLEAN /\ fbd \in BOOLEAN /\ ali \in {"id", "upper"} /\ d \in {x \in DataPool : x.k # "obj" \/ \A i, j \in DOMAIN x.o : i # j => x.o[i][1] # x.o[j][1]}
        /\ phase = "start"
M == TaggedM(CtxOf(addl), tags, d, Deviations)
R == TaggedR(CtxOf(addl), tags, d)
Eval == /\ phase = "start" /\ phase' = "done" /\ UNCHANGED <<tags, addl, fbd, ali, d>>
        /\ Emit => PrintT(ToJson([tags |-> tags, addl |-> addl, fbd |-> fbd, ali |-> ali, data |-> d, kind |-> M.kind, expect |-> M.r,
                                  devkind |-> TaggedM(CtxOf(addl), tags, d, {"ctorvalueerror"}).kind,
                                  ser |-> IF M.kind = "ok" /\ ~IsUnspec(M.r)
                                          THEN TaggedSer(CtxOf(addl), tags, M.r.v, Ser) ELSE DNull]))
Next == Eval
Spec == Init /\ [][Next]_vars

\* "a TaggedUnion accepts exactly one tag": the code-shaped path accepts what the rule accepts, with the same value
ExactlyOneTag == (M.kind = "ok") = R.ok /\ (M.kind = "ok" /\ ~IsUnspec(M.r) /\ ~IsUnspec(R) => M.r.v = R.v)
\* nothing but a ValidationError comes out (C03 on this class kind)
NoEscape == M.kind # "exc"
\* an accepted value serializes to the one-property object it came from, which is accepted back as the same value
RoundTripT == (M.kind = "ok" /\ ~IsUnspec(M.r)) =>
   LET back == TaggedR(CtxOf(addl), tags, AsData(TaggedSer(CtxOf(addl), tags, M.r.v, Ser))) IN
   IsUnspec(back) \/ HasSErr(TaggedSer(CtxOf(addl), tags, M.r.v, Ser)) \/ (back.ok /\ back.v = M.r.v)
=============================================================================
