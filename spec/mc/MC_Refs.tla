------------------------------- MODULE MC_Refs -------------------------------
(* C17: the counting pass against the rule of the property, over the type     *)
(* universe x direction x all_refs; each type emitted with the predicted      *)
(* $defs key sets for replay.                                                 *)
EXTENDS Universe, SchemaRefs, Json, IOUtils

CONSTANTS Tier
VARIABLES T, dir, phase
vars == <<T, dir, phase>>
Types == CASE Tier = "d1" -> TypesD0 \cup TypesD1 [] Tier = "d2" -> TypesD2 [] Tier = "u" -> TypesU
C0 == Ctx(Opt(FALSE, FALSE, FALSE, "id"))
Emit == "EMIT" \in DOMAIN IOEnv /\ IOEnv.EMIT = "1"
ASSUME Emit => PrintT(ToJson([header |-> TRUE, classes |-> UClasses, enums |-> UEnums,
                              senv |-> UStrAttr, aliasers |-> UAliasers]))

Init == T \in Types /\ dir \in {"d", "s"} /\ phase = "start"
Count == /\ phase = "start" /\ phase' = "done" /\ UNCHANGED <<T, dir>>
         /\ Emit => PrintT(ToJson([type |-> T, dir |-> dir, refs |-> Refs(C0, dir, T, FALSE),
                                   all_refs |-> Refs(C0, dir, T, TRUE)]))
Next == Count
Spec == Init /\ [][Next]_vars

\* all_refs = TRUE extracts every named type; FALSE a subset of them
AllRefsRule     == Refs(C0, dir, T, TRUE) = AllNamed(C0, dir, T)
RefsMonotone    == Refs(C0, dir, T, FALSE) \subseteq Refs(C0, dir, T, TRUE)
\* with all_refs = FALSE ONLY named types used more than once, recursive, or members of a
\* discriminated union are extracted ...
OnlyRule == \A n \in Refs(C0, dir, T, FALSE) :
               \/ Occurrences(C0, dir, T, n) >= 2
               \/ n \in DOMAIN UClasses /\ Recursive(C0, dir, n)
               \/ n \in DiscriminatedMembers(C0, dir, T, {})
\* ... members of discriminated unions always are (the discriminator mapping refers to them) ...
DiscriminatedAreRefs == DiscriminatedMembers(C0, dir, T, {}) \subseteq Refs(C0, dir, T, FALSE)
\* ... and what is extracted cuts every cycle: emission terminates, for the root and for each definition
Terminates == /\ Finite(C0, dir, T, Refs(C0, dir, T, FALSE), {})
              /\ \A n \in Refs(C0, dir, T, FALSE) \cap DOMAIN UClasses : Finite(C0, dir, TObj(n), Refs(C0, dir, T, FALSE), {})
=============================================================================
