------------------------------- MODULE MC_Gql --------------------------------
(* C19: one data model (objects, interfaces two levels deep and through a      *)
(* concrete class, a union, enums, Literal, NewType scalars, ID, flattened     *)
(* field, resolvers with parameters) x every root type / value, and every      *)
(* (parameter type, default) x (omitted | null | literal).                     *)
EXTENDS GraphQL, Json, IOUtils

CONSTANTS Tier
VARIABLES cfg, phase
vars == <<cfg, phase>>
Emit == "EMIT" \in DOMAIN IOEnv /\ IOEnv.EMIT = "1"

Fld(n, a, t, d) == [name |-> n, alias |-> a, t |-> t, def |-> d, flat |-> FALSE]
Prm(n, t, d)    == [name |-> n, t |-> t, def |-> d, eh |-> "unset", pos |-> "first"]
E == TEnum("Color")

\* CRIMSON is an ALIAS member of Color (same value as RED): one more name, no new member
M0 == [enums |-> [Color |-> {"RED", "GREEN", "CRIMSON"}], ealias |-> [CRIMSON |-> "RED"],
       evalues |-> [RED |-> "r", GREEN |-> "g"],
       ct |-> [
  Leaf   |-> [kind |-> "object", bases |-> <<>>, resolvers |-> <<>>,
              fields |-> <<Fld("n", "", TInt, Req), Fld("opt_s", "", TOpt(TStr), DfNull), Fld("col", "", E, DfVal(VEnum("Color", "RED"))),
                           Fld("sc", "", TScore, DfVal(DInt(3))), Fld("tags", "", TList(TStr), DfVal(VList(<<>>))),
                           Fld("lit", "", TLit, DfVal(DStr("x")))>>],
  SubIn  |-> [kind |-> "object", bases |-> <<>>, resolvers |-> <<>>, fields |-> <<Fld("x_coord", "", TInt, DfVal(DInt(1)))>>],
  LeafIn |-> [kind |-> "object", bases |-> <<>>, resolvers |-> <<>>,
              fields |-> <<Fld("n", "", TCInt, Req), Fld("opt_s", "the_s", TOpt(TStr), DfNull), Fld("tags", "", TList(TStr), DfVal(VList(<<>>))),
                           Fld("u", "", TUnd(TInt), DfUndef), Fld("k", "", TInt, DfVal(DInt(7))),
                           \* a default FACTORY for Python callers, but `required` in the data
                           Fld("rq", "", TList(TStr), DfReqVal(VList(<<>>))),
                           \* an OBJECT-valued default whose keys the aliaser renames
                           Fld("sub_in", "", TObj("SubIn"), DfVal(VInst("SubIn", << <<"x_coord", DInt(4)>> >>)))>>],
  \* ID-typed input fields (apischema.graphql.ID and a NewType listed in id_types), alone and in a list
  IdIn   |-> [kind |-> "object", bases |-> <<>>, resolvers |-> <<>>,
              fields |-> <<Fld("uid", "", TUid, Req), Fld("ids", "", TList(TId), DfVal(VList(<<>>))), Fld("label", "", TStr, DfVal(DStr("l")))>>],
  EnumIn |-> [kind |-> "object", bases |-> <<>>, resolvers |-> <<>>,
              fields |-> <<Fld("col", "", E, DfVal(VEnum("Color", "GREEN")))>>],
  Node   |-> [kind |-> "interface", bases |-> <<>>, resolvers |-> <<>>, fields |-> <<Fld("id", "", TId, Req)>>],
  Named  |-> [kind |-> "interface", bases |-> <<"Node">>, resolvers |-> <<>>, fields |-> <<Fld("name", "label", TStr, Req)>>],
  User   |-> [kind |-> "object", bases |-> <<"Named">>,
              fields |-> <<Fld("age", "", TInt, DfVal(DInt(0))), Fld("u", "", TUnd(TInt), DfUndef)>>,
              resolvers |-> <<[name |-> "greet", params |-> <<Prm("times", TInt, DfVal(DInt(1)))>>, ret |-> TList(TStr),
                               src |-> "['hi'] * times", v |-> VList(<<DStr("hi")>>), sel |-> TRUE]>>],
  Bot    |-> [kind |-> "object", bases |-> <<"Named">>, resolvers |-> <<>>, fields |-> <<Fld("model", "", TStr, DfVal(DStr("m")))>>],
  Mid    |-> [kind |-> "hidden", bases |-> <<"Named">>, resolvers |-> <<>>, fields |-> <<Fld("level", "", TInt, DfVal(DInt(1)))>>],
  Deep   |-> [kind |-> "object", bases |-> <<"Mid">>, resolvers |-> <<>>, fields |-> <<Fld("depth", "", TInt, DfVal(DInt(2)))>>],
  \* a Python subclass of an object type that the schema does not know
  SubLeaf |-> [kind |-> "hidden", bases |-> <<"Leaf">>, resolvers |-> <<>>, fields |-> <<Fld("extra", "", TInt, DfVal(DInt(1)))>>],
  \* two parametrisations of ONE generic class Box[T] (named by a type_name factory): the type variable is
  \* substituted in the field, in the resolver's return type and in its parameter
  IntBox |-> [kind |-> "object", bases |-> <<>>, fields |-> <<Fld("item", "", TInt, Req)>>,
              resolvers |-> <<[name |-> "first", params |-> <<>>, ret |-> TInt, src |-> "self.item", v |-> [k |-> "attr", n |-> "item"], sel |-> TRUE],
                              [name |-> "has", params |-> <<Prm("item", TInt, Req)>>, ret |-> TBool, src |-> "item == self.item", v |-> DBool(TRUE), sel |-> FALSE]>>],
  StrBox |-> [kind |-> "object", bases |-> <<>>, fields |-> <<Fld("item", "", TStr, Req)>>,
              resolvers |-> <<[name |-> "first", params |-> <<>>, ret |-> TStr, src |-> "self.item", v |-> [k |-> "attr", n |-> "item"], sel |-> TRUE],
                              [name |-> "has", params |-> <<Prm("item", TStr, Req)>>, ret |-> TBool, src |-> "item == self.item", v |-> DBool(TRUE), sel |-> FALSE]>>],
  Child  |-> [kind |-> "object", bases |-> <<>>, resolvers |-> <<>>, fields |-> <<Fld("c", "", TInt, Req)>>],
  \* Part itself flattens Inner: through Holder.flat the fields of Inner are reached across TWO levels of flattening
  \* the flattened classes declare resolvers returning OBJECT types (directly, Optional, in a list) and an interface
  Inner  |-> [kind |-> "object", bases |-> <<>>, fields |-> <<Fld("deep_d", "", TInt, Req)>>,
              resolvers |-> <<[name |-> "opt_kid", params |-> <<>>, ret |-> TOpt(TObj("Child")), src |-> "Child(c=self.deep_d)",
                               v |-> VInst("Child", << <<"c", DInt(77)>> >>), sel |-> FALSE],
                              [name |-> "inner_kid", params |-> <<>>, ret |-> TObj("Child"), src |-> "Child(c=41)",
                               v |-> VInst("Child", << <<"c", DInt(41)>> >>), sel |-> TRUE]>>],
  Part   |-> [kind |-> "object", bases |-> <<>>,
              resolvers |-> <<[name |-> "kid", params |-> <<Prm("bump", TInt, DfVal(DInt(0)))>>, ret |-> TObj("Child"), src |-> "Child(c=40 + bump)",
                               v |-> VInst("Child", << <<"c", DInt(40)>> >>), sel |-> TRUE],
                              [name |-> "kids", params |-> <<>>, ret |-> TList(TObj("Child")), src |-> "[self.child, Child(c=2)]",
                               v |-> VList(<<VInst("Child", << <<"c", DInt(1)>> >>)>>), sel |-> FALSE],
                              [name |-> "no_kid", params |-> <<>>, ret |-> TOpt(TObj("Child")), src |-> "None", v |-> DNull, sel |-> TRUE],
                              [name |-> "leaf_r", params |-> <<>>, ret |-> TObj("Leaf"), src |-> "Leaf(n=5)",
                               v |-> VInst("Leaf", << <<"n", DInt(5)>>, <<"opt_s", DNull>>, <<"col", VEnum("Color", "RED")>>, <<"sc", DInt(3)>>,
                                                      <<"tags", VList(<<>>)>>, <<"lit", DStr("x")>> >>), sel |-> TRUE]>>,
              fields |-> <<Fld("part_n", "", TInt, Req), Fld("child", "", TObj("Child"), Req),
                           [Fld("inner", "", TObj("Inner"), Req) EXCEPT !.flat = TRUE]>>],
  Holder |-> [kind |-> "object", bases |-> <<>>, resolvers |-> <<>>,
              fields |-> <<Fld("leaf", "", TObj("Leaf"), Req), Fld("leaves", "", TList(TObj("Leaf")), Req),
                           Fld("maybe", "", TOpt(TObj("Leaf")), Req), Fld("who", "", TUni(<<"User", "Bot">>), Req),
                           Fld("named", "", TObj("Named"), Req), Fld("node", "", TObj("Node"), Req),
                           Fld("part", "", TObj("Part"), Req),
                           [Fld("flat", "", TObj("Part"), Req) EXCEPT !.flat = TRUE, !.name = "flat"]>>]]]

\* ---- values
LeafV(n, s, c) == VInst("Leaf", << <<"n", DInt(n)>>, <<"opt_s", s>>, <<"col", VEnum("Color", c)>>, <<"sc", DInt(3)>>,
                                   <<"tags", VList(<<DStr("t")>>)>>, <<"lit", DStr("y")>> >>)
SubLeafV == VInst("SubLeaf", << <<"n", DInt(6)>>, <<"opt_s", DStr("q")>>, <<"col", VEnum("Color", "GREEN")>>, <<"sc", DInt(3)>>,
                                 <<"tags", VList(<<>>)>>, <<"lit", DStr("x")>>, <<"extra", DInt(9)>> >>)
UserV == VInst("User", << <<"id", DStr("1")>>, <<"name", DStr("bob")>>, <<"age", DInt(3)>>, <<"u", VUndef>> >>)
UserV2 == VInst("User", << <<"id", DStr("3")>>, <<"name", DStr("eve")>>, <<"age", DInt(4)>>, <<"u", DInt(5)>> >>)
BotV  == VInst("Bot",  << <<"id", DStr("2")>>, <<"name", DStr("bot")>>, <<"model", DStr("m")>> >>)
DeepV == VInst("Deep", << <<"id", DStr("4")>>, <<"name", DStr("deep")>>, <<"level", DInt(1)>>, <<"depth", DInt(2)>> >>)
PartV(n) == VInst("Part", << <<"part_n", DInt(n)>>, <<"child", VInst("Child", << <<"c", DInt(n + 1)>> >>)>>,
                          <<"inner", VInst("Inner", << <<"deep_d", DInt(n + 2)>> >>)>> >>)
HolderV(who, named, maybe) ==
  VInst("Holder", << <<"leaf", LeafV(1, DNull, "RED")>>, <<"leaves", VList(<<LeafV(2, DStr("s"), "GREEN")>>)>>, <<"maybe", maybe>>,
                     <<"who", who>>, <<"named", named>>, <<"node", UserV>>, <<"part", PartV(5)>>, <<"flat", PartV(8)>> >>)

Roots ==
  { [t |-> TObj("Holder"), vs |-> {HolderV(UserV, BotV, DNull), HolderV(BotV, DeepV, LeafV(9, DNull, "RED")), HolderV(UserV2, UserV, DNull)}],
    [t |-> TObj("Leaf"), vs |-> {LeafV(1, DNull, "RED"), LeafV(2, DStr("s"), "GREEN"), SubLeafV}],
    [t |-> TList(TObj("Leaf")), vs |-> {VList(<<>>), VList(<<LeafV(1, DNull, "RED"), SubLeafV, LeafV(2, DStr("s"), "GREEN")>>)}],
    [t |-> TOpt(TObj("Leaf")), vs |-> {DNull, LeafV(1, DNull, "RED"), SubLeafV}],
    [t |-> TObj("Named"), vs |-> {UserV, BotV, DeepV}],
    [t |-> TObj("Node"), vs |-> {UserV, DeepV}],
    [t |-> TList(TObj("Node")), vs |-> {VList(<<UserV, BotV, DeepV>>)}],
    [t |-> TUni(<<"User", "Bot">>), vs |-> {UserV, BotV, UserV2}],
    [t |-> TObj("Deep"), vs |-> {DeepV}],
    [t |-> TObj("Part"), vs |-> {PartV(1)}],
    [t |-> TObj("IntBox"), vs |-> {VInst("IntBox", << <<"item", DInt(3)>> >>)}],
    [t |-> TList(TObj("StrBox")), vs |-> {VList(<<VInst("StrBox", << <<"item", DStr("s")>> >>)>>)}],
    [t |-> TInt, vs |-> {DInt(0), DInt(5)}],
    [t |-> TList(TOpt(TInt)), vs |-> {VList(<<DInt(1), DNull>>)}],
    [t |-> TUnd(TInt), vs |-> {VUndef, DInt(1)}],
    [t |-> E, vs |-> {VEnum("Color", "RED"), VEnum("Color", "GREEN")}],
    [t |-> TOpt(E), vs |-> {DNull, VEnum("Color", "GREEN")}],
    [t |-> TList(E), vs |-> {VList(<<VEnum("Color", "GREEN"), VEnum("Color", "RED")>>)}],
    [t |-> TLit, vs |-> {DStr("x"), DStr("y")}],
    [t |-> TId, vs |-> {DStr("abc")}],
    [t |-> TUid, vs |-> {DStr("u7")}],
    [t |-> TList(TOpt(TUid)), vs |-> {VList(<<DStr("1"), DNull, DStr("2")>>)}],
    [t |-> TScore, vs |-> {DInt(4)}],
    [t |-> TBool, vs |-> {DBool(TRUE)}],
    [t |-> TStr, vs |-> {DStr("a")}] }

\* ---- parameters and the literals supplied for them
EName(m) == [k |-> "ename", m |-> m]
Ints == {DInt(3), DInt(0), DStr("a")} \cup {DInt(0 - 1)}
Params ==
  { [p |-> Prm("arg_one", TInt, d), ds |-> Ints] : d \in {Req, DfVal(DInt(2)), DfUndef, DfUnser} } \cup
  { [p |-> Prm("arg_one", TOpt(TInt), d), ds |-> Ints] : d \in {Req, DfNull, DfVal(DInt(5))} } \cup
  { [p |-> Prm("arg_one", TCInt, d), ds |-> Ints] : d \in {Req, DfVal(DInt(1))} } \cup
  { [p |-> Prm("arg_one", TOpt(TCInt), DfNull), ds |-> Ints] } \cup
  { [p |-> Prm("arg_one", TStr, d), ds |-> {DStr("a"), DInt(1)}] : d \in {Req, DfVal(DStr("dflt"))} } \cup
  { [p |-> Prm("arg_one", TOpt(TStr), DfVal(DStr("t"))), ds |-> {DStr("a")}] } \cup
  { [p |-> Prm("arg_one", E, d), ds |-> {EName("RED"), EName("BLUE"), DStr("r"), EName("CRIMSON")}] : d \in {Req, DfVal(VEnum("Color", "GREEN"))} } \cup
  { [p |-> Prm("arg_one", TOpt(E), DfNull), ds |-> {EName("GREEN")}] } \cup
  { [p |-> Prm("arg_one", TList(E), Req), ds |-> {DArr(<<EName("GREEN"), EName("RED")>>)}] } \cup
  { [p |-> Prm("arg_one", TLit, Req), ds |-> {EName("x"), EName("z")}] } \cup
  { [p |-> Prm("arg_one", TList(TCInt), d), ds |-> {DArr(<<DInt(1), DInt(2)>>), DArr(<<DInt(1), DInt(0 - 2)>>), DArr(<<>>)}]
        : d \in {Req, DfVal(VList(<<>>)), DfVal(VList(<<DInt(4)>>))} } \cup
  { [p |-> Prm("arg_one", TId, Req), ds |-> {DStr("x1"), DStr("i:x1")}], [p |-> Prm("arg_one", TScore, Req), ds |-> {DInt(9)}],
    [p |-> Prm("arg_one", TUid, Req), ds |-> {DStr("u7"), DStr("i:u7")}],
    [p |-> Prm("arg_one", TOpt(TUid), DfNull), ds |-> {DStr("i:abc")}],
    [p |-> Prm("arg_one", TList(TId), DfVal(VList(<<>>))), ds |-> {DArr(<<DStr("i:1"), DStr("i:2")>>), DArr(<<DStr("i:1"), DStr("2")>>), DArr(<<DStr("1")>>)}],
    [p |-> Prm("arg_one", TObj("IdIn"), Req),
     ds |-> {DObj(<< <<"uid", DStr("i:u7")>> >>), DObj(<< <<"uid", DStr("u7")>> >>),
             DObj(<< <<"uid", DStr("i:u7")>>, <<"ids", DArr(<<DStr("i:3"), DStr("i:4")>>)>>, <<"label", DStr("i:abc")>> >>),
             DObj(<< <<"uid", DStr("u7")>>, <<"ids", DArr(<<DStr("3")>>)>>, <<"label", DStr("abc")>> >>)}],
    [p |-> Prm("arg_one", TBool, DfVal(DBool(FALSE))), ds |-> {DBool(TRUE)}] } \cup
  { [p |-> Prm("arg_one", TObj("LeafIn"), Req),
     ds |-> {DObj(<< <<"n", DInt(1)>> >>), DObj(<< <<"n", DInt(1)>>, <<"rq", DArr(<<>>)>> >>), DObj(<< <<"n", DInt(0 - 1)>>, <<"rq", DArr(<<>>)>> >>), DObj(<<>>),
             DObj(<< <<"n", DInt(1)>>, <<"the_s", DStr("s")>>, <<"tags", DArr(<<DStr("a")>>)>>, <<"u", DInt(2)>>, <<"k", DInt(8)>>, <<"rq", DArr(<<DStr("r")>>)>> >>),
             DObj(<< <<"n", DInt(1)>>, <<"the_s", DNull>>, <<"u", DNull>>, <<"rq", DArr(<<DStr("r")>>)>> >>),
             DObj(<< <<"n", DInt(1)>>, <<"opt_s", DStr("python name")>>, <<"rq", DArr(<<DStr("r")>>)>> >>)}] } \cup
  { [p |-> Prm("arg_one", TOpt(TObj("LeafIn")), DfNull), ds |-> {DObj(<< <<"n", DInt(1)>>, <<"rq", DArr(<<>>)>> >>)}] } \cup
  { [p |-> Prm("arg_one", TObj("EnumIn"), Req), ds |-> {DObj(<<>>), DObj(<< <<"col", EName("RED")>> >>), DObj(<< <<"col", EName("CRIMSON")>> >>)}] }

\* the parameters whose data can pass GraphQL's own coercion and still be rejected by apischema, under an error_handler
EhParams == {[q EXCEPT !.p = [q.p EXCEPT !.eh = h]] : q \in {x \in Params : x.p.t \in {TCInt, TOpt(TCInt), TList(TCInt), TObj("LeafIn")}},
                                                       h \in {"none", "custom"}}
InfoParams == {[q EXCEPT !.p = [q.p EXCEPT !.pos = "afterinfo"]] : q \in {x \in Params : x.p.t \in {TInt, TOpt(TInt)}}}
LeafInV == VInst("LeafIn", << <<"n", DInt(2)>>, <<"opt_s", DStr("dflt")>>, <<"tags", VList(<<>>)>>, <<"u", VUndef>>, <<"k", DInt(7)>>, <<"rq", VList(<<>>)>>,
                               <<"sub_in", VInst("SubIn", << <<"x_coord", DInt(4)>> >>)>> >>)
ObjDefaultParams == {[p |-> Prm("arg_one", TObj("LeafIn"), DfVal(LeafInV)), ds |-> {DObj(<< <<"n", DInt(1)>>, <<"rq", DArr(<<>>)>> >>), DObj(<< <<"n", DInt(1)>> >>)}]}
\* resolver outcomes: (return type, returns | raises) x error_handler x sync / async resolver x sync / async handler
ResCases == {[t |-> t, out |-> o, v |-> DInt(7), eh |-> h, mode |-> m, hmode |-> hm] :
               t \in {TInt, TOpt(TInt)}, o \in {"ok", "raise"}, h \in {"unset", "none", "custom"}, m \in {"sync", "async"}, hm \in {"sync", "async"}}
Cfgs == {[kind |-> "root", root |-> r] : r \in Roots} \cup {[kind |-> "res", r |-> r] : r \in ResCases}
        \cup {[kind |-> "param", prm |-> p] : p \in Params \cup EhParams \cup InfoParams \cup ObjDefaultParams}
        \cup {[kind |-> "types"]}

Classes == DOMAIN M0.ct
TypeMap ==
  [n \in Classes |-> [kind |-> M0.ct[n].kind, interfaces |-> SetToSeq(InterfacesM(M0, n)),
                      out |-> OutFields(M0, n), inp |-> InFields(M0, n),
                      resolvers |-> [i \in DOMAIN AllResolvers(M0, n) |->
                          [name |-> AllResolvers(M0, n)[i].name,
                           args |-> [j \in DOMAIN AllResolvers(M0, n)[i].params |->
                                       <<AllResolvers(M0, n)[i].params[j].name,
                                         InField(AllResolvers(M0, n)[i].params[j].t, AllResolvers(M0, n)[i].params[j].def)>>]]]]]

Pairs(f) == LET s == SetToSeq(DOMAIN f) IN [i \in DOMAIN s |-> [in |-> s[i], out |-> f[s[i]]]]

ASSUME Emit => PrintT(ToJson([header |-> TRUE, model |-> [ct |-> M0.ct, evalues |-> M0.evalues]]))

Init == cfg \in Cfgs /\ phase = "start"
Eval == /\ phase = "start" /\ phase' = "done" /\ UNCHANGED cfg
        /\ Emit => PrintT(ToJson(
             CASE cfg.kind = "root" ->
                    [kind |-> "root", t |-> cfg.root.t, gtype |-> Render(Ty(cfg.root.t, "out")),
                     cases |-> Pairs([v \in cfg.root.vs |-> GSer(M0, cfg.root.t, v)])]
               [] cfg.kind = "param" ->
                    [kind |-> "param", p |-> cfg.prm.p, arg |-> InField(cfg.prm.p.t, cfg.prm.p.def),
                     cases |-> Pairs([s \in Supplies(cfg.prm.ds) |-> [lit |-> ArgM(M0, cfg.prm.p, s, "lit"), var |-> ArgM(M0, cfg.prm.p, s, "var")]])]
               [] cfg.kind = "res" -> [kind |-> "res", r |-> cfg.r, gtype |-> ResTy(cfg.r), out |-> ResM(M0, cfg.r)]
               [] OTHER -> [kind |-> "types", typemap |-> TypeMap]))
Next == Eval
Spec == Init /\ [][Next]_vars

---------------------------------------------------------------------------
\* the code's argument handling is the rule
ArgLaw == cfg.kind = "param" => \A s \in Supplies(cfg.prm.ds) : \A ch \in {"lit", "var"} : ArgM(M0, cfg.prm.p, s, ch) = ArgR(M0, cfg.prm.p, s)
\* an invalid argument never reaches the resolver, a valid one reaches it as deserialize would build it
ArgSound == cfg.kind = "param" => \A s \in Supplies(cfg.prm.ds) :
               (s.k = "given" /\ s.d.k # "null") => \A ch \in {"lit", "var"} :
                   ArgM(M0, cfg.prm.p, s, ch) = (LET dd == DecodeIds(M0, cfg.prm.p.t, s.d) IN IF dd = BadId THEN ArgErr ELSE ADeser(M0, cfg.prm.p.t, dd))
\* output IDs are the encoding of what serialize gives, and decoding them gives it back
IdRoundTrip == cfg.kind = "root" /\ IsIdType(cfg.root.t) => \A v \in cfg.root.vs :
                   DecodeIds(M0, cfg.root.t, GSer(M0, cfg.root.t, v)) = v
\* a raising resolver is handled as its error_handler says, whether or not it is asynchronous
ResLaw == cfg.kind = "res" => ResM(M0, cfg.r) = ResR(M0, cfg.r)
\* interfaces: what the code declares is what the GraphQL specification requires
InterfacesLaw == cfg.kind = "types" => \A n \in Classes : InterfacesM(M0, n) = InterfacesR(M0, n) /\ ImplementsClosed(M0, n)
\* nullability: non-null unless Optional / Undefined (output), or a None / Undefined / unserializable default (input)
NullabilityLaw == cfg.kind = "types" => \A n \in Classes : \A i \in DOMAIN AllFields(M0, n) :
     LET f == AllFields(M0, n)[i] IN
     /\ f.flat \/ (Ty(f.t, "out").nn <=> ~IsNullable(f.t))
     /\ f.flat \/ (LET s == InField(f.t, f.def).type IN
                   (f.def.k \in {"null", "undef", "unser"} \/ IsNullable(f.t)) <=> (s = Ty(f.t, "in").s))
=============================================================================
