---------------------------- MODULE MC_CacheEmit ----------------------------
(* Histories for the spec -> code replay of C09: the constants come from the  *)
(* generated module MC_CacheGen (the concrete pool of harness/cachepool.py).  *)
EXTENDS MC_CacheGen, Json, IOUtils

IsObs(e)  == e.op \in {"observe", "callheld"}
\* a history can only show staleness if something was cached (observe / hold), then the
\* configuration changed, then the same cache key is observed again
Interesting(h) ==
  /\ Len(h) >= 2 /\ IsObs(h[Len(h)])
  /\ \/ \E i \in 1..(Len(h) - 1) :
          /\ h[i].op \in {"observe", "hold"} /\ GKey[h[i].obs] = GKey[h[Len(h)].obs]
          /\ \E j \in (i + 1)..(Len(h) - 1) : h[j].op = "mutate"
     \/ \E i \in 1..(Len(h) - 1) : h[i].op \in {"observe"} /\ h[i].obs # h[Len(h)].obs
                                    /\ GKey[h[i].obs] = GKey[h[Len(h)].obs]
     \/ h[Len(h)].op = "callheld"
Emit == "EMIT" \in DOMAIN IOEnv /\ IOEnv.EMIT = "1"
EmitHist == (Emit /\ Interesting(hist)) => PrintT(ToJson(hist))
\* in simulation mode: long random histories, printed when they reach the bound
EmitLong == (Emit /\ Len(hist) = MaxLen) => PrintT(ToJson(hist))
=============================================================================
