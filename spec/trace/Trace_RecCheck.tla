--------------------------- MODULE Trace_RecCheck ---------------------------
(***************************************************************************)
(* code -> spec for C20: the accesses real threads made to the shared      *)
(* recursion cache (logged with a sequence number taken under the lock     *)
(* that performs the dict operation) must be a behaviour of RecCheck with  *)
(* UseLock = TRUE, and CacheSound / ResultSound must hold in every state.  *)
(* Every event names thread, operation, key and value, so the search is    *)
(* linear.  trace = [nodes, succ : Seq(<<n, Seq(n)>>), threads, events]    *)
(***************************************************************************)
EXTENDS Naturals, Sequences, FiniteSets, TLC, Json, IOUtils

Trace == JsonDeserialize(IOEnv.TRACE_FILE)
TNodes   == {Trace.nodes[i] : i \in DOMAIN Trace.nodes}
TSucc    == [n \in TNodes |-> (CHOOSE p \in {Trace.succ[i] : i \in DOMAIN Trace.succ} : p[1] = n)[2]]
TThreads == {Trace.threads[i] : i \in DOMAIN Trace.threads}
Ev       == Trace.events
\* the program of a thread is what it actually called
TProg    == [t \in TThreads |->
               LET calls == SelectSeq(Ev, LAMBDA e : e.t = t /\ e.op = "call") IN
               [i \in DOMAIN calls |-> calls[i].key]]

VARIABLES cache, lock, th, last, l
R == INSTANCE RecCheck WITH Nodes <- TNodes, Succ <- TSucc, Threads <- TThreads, Prog <- TProg,
                            UseLock <- TRUE, Deviations <- {}

IsEv(op) == l <= Len(Ev) /\ Ev[l].op = op /\ l' = l + 1
InOut(k) == IF cache[k] # "none" THEN "in" ELSE "out"

TraceInit == R!Init /\ l = 1 /\ TLCSet(7, 1)
TraceNext ==
  \/ /\ IsEv("call")     /\ R!Start(Ev[l].t) /\ TProg[Ev[l].t][th[Ev[l].t].pi + 1] = Ev[l].key
  \/ /\ IsEv("contains") /\ Ev[l].val = InOut(Ev[l].key)
     /\ R!Check(Ev[l].t)   /\ R!Root(Ev[l].t) = Ev[l].key
  \/ /\ IsEv("lookup") /\ Ev[l].val = cache[Ev[l].key]
     /\ R!Enter(Ev[l].t)   /\ th[Ev[l].t].cur = Ev[l].key
  \/ /\ IsEv("acquire")  /\ R!Acquire(Ev[l].t)
  \/ /\ IsEv("release")  /\ R!Release(Ev[l].t)
  \/ /\ IsEv("set")
     /\ \/ Ev[l].val = "T" /\ R!WriteT(Ev[l].t, Ev[l].key)
        \/ Ev[l].val = "F" /\ R!WriteF(Ev[l].t) /\ th[Ev[l].t].wkey = Ev[l].key
  \/ /\ IsEv("get") /\ Ev[l].val = cache[Ev[l].key]
     /\ \/ R!AssertR(Ev[l].t) /\ th[Ev[l].t].wkey = Ev[l].key
        \/ R!Return(Ev[l].t)  /\ R!Root(Ev[l].t) = Ev[l].key
TraceSpec == TraceInit /\ [][TraceNext]_<<cache, lock, th, last, l>>

CacheSound  == R!CacheSound
ResultSound == R!ResultSound
\* accepted iff every logged event was matched
TraceAccepted == IF TLCGet("stats").diameter - 1 = Len(Ev) THEN TRUE
                 ELSE PrintT(<<"REJECTED_AT", TLCGet(7), Ev[TLCGet(7)]>>) /\ FALSE
\* where the longest matched prefix stops (printed for rejected traces)
Progress == IF l > TLCGet(7) THEN TLCSet(7, l) ELSE TRUE
=============================================================================
