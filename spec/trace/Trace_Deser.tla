---------------------------- MODULE Trace_Deser ------------------------------
(***************************************************************************)
(* code -> spec: validation of recorded deserialize() calls against the    *)
(* reference semantics (DataModel).  Every event logs the full input and   *)
(* the full outcome, so the trace spec never branches; events are          *)
(* independent, so the verdict is TOTAL: a mismatching event is reported    *)
(* (MISMATCH <id> <failing clause>) and validation goes on.                *)
(*                                                                         *)
(* event == [id, cx (index of its context), type, cons, data,                                    *)
(*           out |-> [kind : "ok"|"verr"|"exc", v, errs, exc]]             *)
(***************************************************************************)
EXTENDS DataModel, Json, IOUtils

Trace  == JsonDeserialize(IOEnv.TRACE_FILE)     \* [ctxs : Seq(ctx), events : Seq(event)]
Events == Trace.events

VARIABLE i

\* JSON has no sets: logged set values arrive as sequences
RECURSIVE CanonV(_)
CanonV(v) ==
  CASE v.k \in {"list", "tuple"} -> [k |-> v.k, a |-> [j \in DOMAIN v.a |-> CanonV(v.a[j])]]
    [] v.k \in {"set", "fset"}   -> [k |-> v.k, e |-> {CanonV(v.e[j]) : j \in DOMAIN v.e}]
    [] v.k = "dict" -> VDict([j \in DOMAIN v.o |-> <<CanonV(v.o[j][1]), CanonV(v.o[j][2])>>])
    [] v.k = "inst" -> VInst(v.cls, [j \in DOMAIN v.f |-> <<v.f[j][1], CanonV(v.f[j][2])>>])
    [] OTHER        -> v

\* class tables logged as JSON lose nothing but the set-ness of default values
CanonCtx(c) ==
  [C  |-> [n \in DOMAIN c.C |->
             [c.C[n] EXCEPT !.fields = [j \in DOMAIN c.C[n].fields |->
                 [c.C[n].fields[j] EXCEPT !.dv = CanonV(c.C[n].fields[j].dv)]]]],
   En |-> c.En, O |-> [c.O EXCEPT !.impl = FALSE, !.dev = {}, !.setuniq = FALSE], S |-> c.S]

\* non JSON-shaped Python objects somewhere in the datum (C03): the specification fixes only
\* the CLASS of the outcome -- a value or a ValidationError -- never the value
RECURSIVE HasPy(_)
HasPy(x) == CASE x.k = "py"  -> TRUE
              [] x.k = "arr" -> \E j \in DOMAIN x.a : HasPy(x.a[j])
              [] x.k = "obj" -> \E j \in DOMAIN x.o : HasPy(x.o[j][2])
              [] OTHER       -> FALSE

Verdict(ev) ==
  IF ev.out.kind = "exc" THEN "escape"
  ELSE IF HasPy(ev.data) THEN "ok"
  ELSE
  LET r == RD(CanonCtx(Trace.ctxs[ev.cx]), ev.type, ev.cons, ev.data) IN
    IF IsUnspec(r) THEN "ok"
    ELSE IF r.ok THEN
           IF ev.out.kind # "ok" THEN "rejected-conforming"
           ELSE IF ev.out.v.k = "unencodable" THEN "ok"
           ELSE IF ~ImageEq(CanonCtx(Trace.ctxs[ev.cx]), ev.type, r.v, CanonV(ev.out.v)) THEN "image"
           ELSE "ok"
    ELSE IF ev.out.kind = "ok" THEN "accepted-nonconforming"
    ELSE LET got == {<<x[1], x[2]>> : x \in Range(ev.out.errs)} IN
         IF ~Satisfied(r.e, got) THEN "errors-missing"
         ELSE IF ~Permitted(got, r.e, r.x) THEN "errors-spurious"
         ELSE IF ~ev.out.order_ok THEN "errors-order"
         ELSE "ok"

Report(ev) ==
  LET vd == Verdict(ev) IN
    IF vd = "ok" THEN TRUE
    ELSE /\ PrintT(<<"MISMATCH", ev.id, vd>>)
         /\ IF vd = "escape" \/ IOEnv.TRACE_EXPECT # "1" THEN TRUE
            ELSE PrintT(<<"EXPECT", ev.id, ToJson(RD(CanonCtx(Trace.ctxs[ev.cx]), ev.type, ev.cons, ev.data))>>)

Init == i = 1
Next == /\ i <= Len(Events)
        /\ Report(Events[i])
        /\ i' = i + 1
Spec == Init /\ [][Next]_i

\* every event was consumed (the verdict is total, so the trace is always "accepted"
\* in the TLC sense; mismatches are counted from the MISMATCH lines)
AllConsumed == TLCGet("stats").diameter = Len(Events) + 1
=============================================================================
