----------------------------- MODULE Trace_Cache ----------------------------
(***************************************************************************)
(* code -> spec for C09: each recorded history logs, for every             *)
(* configuration operation, whether apischema.cache.reset() was called     *)
(* while it executed, and for every observation whether its result was     *)
(* the cold-start result.  The model is stepped with what the code did     *)
(* (a mutation clears the model cache iff reset was called): a mutation    *)
(* without reset is reported (clause "no-reset"), and an observation is    *)
(* accepted iff the model -- with those resets -- agrees that the cached   *)
(* artefact is current (clause "stale-observation" otherwise).             *)
(***************************************************************************)
EXTENDS MC_CacheGen, Json, IOUtils

Traces == JsonDeserialize(IOEnv.TRACE_FILE)
VARIABLES ti, l
E == Traces[ti][l]

TraceInit == Init /\ ti = 1 /\ l = 1
Clear == [kk \in Keys |-> <<"none">>]
NextTrace == IF ti < Len(Traces)
             THEN /\ ti' = ti + 1 /\ l' = 1 /\ cfg' = Init0 /\ cache' = Clear
                  /\ held' = [o \in Obs |-> <<"none">>] /\ hist' = <<>> /\ stale' = FALSE
             ELSE /\ ti' = ti + 1 /\ l' = 1 /\ UNCHANGED vars /\ PrintT(<<"ALLDONE", ti>>)

Step ==
  /\ ti <= Len(Traces)
  /\ IF l > Len(Traces[ti]) THEN NextTrace
     ELSE /\ l' = l + 1 /\ ti' = ti /\ hist' = hist /\ stale' = stale
          /\ CASE E.op = "mutate" ->
                    /\ cfg' = [cfg EXCEPT ![E.knob] = E.val]
                    /\ cache' = IF E.reset THEN Clear ELSE cache
                    /\ held' = held
                    /\ IF E.reset THEN TRUE ELSE PrintT(<<"MISMATCH", ti, "no-reset", E.knob>>)
               [] E.op = "observe" ->
                    LET entry == IF cache[Key[E.obs]] = <<"none">> THEN <<"some", E.obs, Proj(cfg, E.obs)>>
                                 ELSE cache[Key[E.obs]]
                        modelFresh == entry = <<"some", E.obs, Proj(cfg, E.obs)>> IN
                    /\ cache' = [cache EXCEPT ![Key[E.obs]] = entry]
                    /\ UNCHANGED <<cfg, held>>
                    /\ IF E.fresh THEN TRUE ELSE PrintT(<<"MISMATCH", ti, "stale-observation", E.obs>>)
                    /\ IF modelFresh \/ ~E.fresh THEN TRUE
                       ELSE TRUE   \* fresh although the model allowed staleness: dependencies are over-approximated
               [] E.op = "reset" -> cache' = Clear /\ UNCHANGED <<cfg, held>>
               [] OTHER -> UNCHANGED <<cfg, cache, held>>
TraceNext == Step
=============================================================================
