INIT Init
NEXT Next
POSTCONDITION AllConsumed
CHECK_DEADLOCK FALSE
