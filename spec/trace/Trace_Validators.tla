-------------------------- MODULE Trace_Validators --------------------------
(***************************************************************************)
(* code -> spec for C10: recorded deserializations of classes with logging *)
(* validators.  Each recorded execution carries its case and what the real *)
(* code did: the validators invoked in order (their own side effect), the  *)
(* reported errors and the number of constructor calls.  Every logged      *)
(* validator call must be the enabled Run step of the model; the verdict   *)
(* is total (MISMATCH <id> <clause>, then the next execution is examined). *)
(***************************************************************************)
EXTENDS Validators, Json, IOUtils

Execs == JsonDeserialize(IOEnv.TRACE_FILE)

VARIABLES tid, k
tvars == <<vars, tid, k>>

ToSet(s) == {s[i] : i \in DOMAIN s}
\* JSON has no sets
CaseOf(e) == [depreq |-> e.case.depreq, fields |-> e.case.fields,
              vals   |-> [i \in DOMAIN e.case.vals |->
                           [e.case.vals[i] EXCEPT !.deps = ToSet(@), !.disc = ToSet(@)]],
              ext    |-> [i \in DOMAIN e.case.ext |->
                           [e.case.ext[i] EXCEPT !.deps = {}, !.disc = {}]],
              extmode |-> e.case.extmode, maxp |-> e.case.maxp]
LoggedErrs(e) == {<<e.errs[i][1], e.errs[i][2]>> : i \in DOMAIN e.errs}

Load(i) == /\ case' = CaseOf(Execs[i]) /\ phase' = "fields" /\ fi' = 1 /\ provided' = {} /\ ferr' = {}
           /\ pending' = <<>> /\ errs' = RootErrOf(CaseOf(Execs[i])) /\ ran' = <<>> /\ constructed' = 0
           /\ tid' = i /\ k' = 1

TraceInit == /\ case = CaseOf(Execs[1]) /\ phase = "fields" /\ fi = 1 /\ provided = {} /\ ferr = {}
             /\ pending = <<>> /\ errs = RootErrOf(CaseOf(Execs[1])) /\ ran = <<>> /\ constructed = 0
             /\ tid = 1 /\ k = 1

E == Execs[tid]
NextExec == IF tid < Len(Execs) THEN Load(tid + 1)
            ELSE /\ tid' = tid + 1 /\ UNCHANGED <<vars, k>> /\ PrintT(<<"ALLDONE", tid>>)

Silent == (DeserField \/ EndFields \/ Gate \/ (GoesExt /\ Finish)) /\ UNCHANGED <<tid, k>>
\* the object's own validation is over and no unbound validator is still to come
AtEnd == pending = <<>> /\ ((phase = "validate" /\ ~GoesExt) \/ phase = "external")
\* a logged validator call must be the enabled Run step
MatchRun == /\ phase \in {"validate", "external"} /\ pending # <<>> /\ k <= Len(E.ran)
            /\ Head(pending).name = E.ran[k]
            /\ Run /\ k' = k + 1 /\ UNCHANGED tid
Stuck == /\ phase \in {"validate", "external"}
         \* IF, not \/: TLC splits a disjunction of an action into sub-actions and evaluates each alone
         /\ IF pending # <<>> THEN (IF k > Len(E.ran) THEN TRUE ELSE Head(pending).name # E.ran[k])
            ELSE AtEnd /\ k <= Len(E.ran)
         /\ PrintT(<<"MISMATCH", E.id, "ran">>)
         /\ NextExec
EndExec == /\ AtEnd /\ k > Len(E.ran)
           /\ LET vd == IF E.kind \notin {"ok", "verr"} THEN "escape"
                        ELSE IF (E.kind = "ok") # (errs = {}) THEN "accept"
                        ELSE IF LoggedErrs(E) # errs THEN "errors"
                        ELSE IF E.constructed # constructed THEN "constructed"
                        ELSE IF ran # RefRan \/ errs # RefErrs THEN "model-vs-reference"
                        ELSE "ok"
              IN IF vd = "ok" THEN TRUE ELSE PrintT(<<"MISMATCH", E.id, vd>>)
           /\ NextExec

TraceNext == tid <= Len(Execs) /\ (Silent \/ MatchRun \/ Stuck \/ EndExec)
TraceSpec == TraceInit /\ [][TraceNext]_tvars
AllExamined == TLCGet("stats").diameter >= Len(Execs)
Consumed == tid = Len(Execs) + 1
=============================================================================
