------------------------------ MODULE LazySlot ------------------------------
(***************************************************************************)
(* C20, second mechanism: the lazily initialised slot of RecMethod (the    *)
(* method of a recursive type is compiled at its first use).  Several      *)
(* threads may reach the same RecMethod at once; lazy() is a long,         *)
(* interruptible computation.                                              *)
(*                                                                         *)
(*   Test(t)    `if self.method is None`                                   *)
(*   Compute(t) `self.lazy()`          (interruptible: Begin / End)        *)
(*   Store(t)   `self.method = ...`                                        *)
(*   Use(t)     `self.method.deserialize(data)`                            *)
(*                                                                         *)
(* The protocol of the code is idempotent: several threads may compute,    *)
(* each stores an equivalent method, nobody ever uses an empty slot.       *)
(* Deviation "clearfirst" is the realistic regression where the closure is *)
(* released BEFORE the method is stored (`lazy, self.lazy = self.lazy,     *)
(* None` then `self.method = lazy()`): a second thread sees no closure and *)
(* an empty slot.                                                          *)
(***************************************************************************)
EXTENDS Naturals, Sequences, FiniteSets, TLC

CONSTANTS Threads, Deviations
VARIABLES slot,      \* "empty" | "method"
          closure,   \* TRUE while the lazy closure is still attached
          pc,        \* per thread: "test" | "compute" | "store" | "use" | "done" | "crashed"
          hist
vars == <<slot, closure, pc, hist>>

Init == slot = "empty" /\ closure = TRUE /\ pc = [t \in Threads |-> "test"] /\ hist = <<>>

Test(t) ==
  /\ pc[t] = "test"
  /\ IF "clearfirst" \in Deviations
       THEN IF closure THEN closure' = FALSE /\ pc' = [pc EXCEPT ![t] = "compute"]
            ELSE UNCHANGED closure /\ pc' = [pc EXCEPT ![t] = "use"]
       ELSE UNCHANGED closure /\ pc' = [pc EXCEPT ![t] = IF slot = "empty" THEN "compute" ELSE "use"]
  /\ UNCHANGED slot /\ hist' = hist \o <<[t |-> t, op |-> "test"]>>

Compute(t) == /\ pc[t] = "compute" /\ pc' = [pc EXCEPT ![t] = "store"]
              /\ UNCHANGED <<slot, closure>> /\ hist' = hist \o <<[t |-> t, op |-> "compute"]>>

Store(t) == /\ pc[t] = "store" /\ slot' = "method" /\ pc' = [pc EXCEPT ![t] = "use"]
            /\ UNCHANGED closure /\ hist' = hist \o <<[t |-> t, op |-> "store"]>>

Use(t) == /\ pc[t] = "use"
          /\ pc' = [pc EXCEPT ![t] = IF slot = "method" THEN "done" ELSE "crashed"]
          /\ UNCHANGED <<slot, closure>> /\ hist' = hist \o <<[t |-> t, op |-> "use"]>>

Next == (\E t \in Threads : Test(t) \/ Compute(t) \/ Store(t) \/ Use(t))
        \/ ((\A t \in Threads : pc[t] \in {"done", "crashed"}) /\ UNCHANGED vars)
Spec == Init /\ [][Next]_vars
View == <<slot, closure, pc>>

\* nobody ever calls a method that is not there (AttributeError on None in the code)
NoEmptyUse == \A t \in Threads : pc[t] # "crashed"
=============================================================================
