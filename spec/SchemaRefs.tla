------------------------------ MODULE SchemaRefs -----------------------------
(***************************************************************************)
(* C17 -- which named types are extracted to $defs.                        *)
(*                                                                         *)
(* Layer M: RefCount transcribes the counting pass of                      *)
(* apischema.json_schema.refs.RefsExtractor: the type is traversed in      *)
(* field order, every occurrence of a NAMED type (class, Enum, NewType --  *)
(* default_type_name) increments its counter, and a named type already     *)
(* counted is not descended again; the alternatives of a discriminated     *)
(* union are visited twice.  Refs(all_refs) are the names with count > 1   *)
(* (all_refs = FALSE) or > 0 (TRUE) -- _extract_refs.                      *)
(* Layer R: the rule of the property -- recursive types, members of        *)
(* discriminated unions and named types used more than once are extracted; *)
(* with all_refs every named type is.                                      *)
(***************************************************************************)
EXTENDS Serialization

\* counters: sequence of <<name, count>>
Cnt(acc, n)  == GetOr(acc, n, 0)
Incr(acc, n) == IF HasKey(acc, n) THEN [i \in DOMAIN acc |-> IF acc[i][1] = n THEN <<n, acc[i][2] + 1>> ELSE acc[i]]
                ELSE Append(acc, <<n, 1>>)

RECURSIVE RefCount(_, _, _, _)
RECURSIVE CountSeq(_, _, _, _)
CountSeq(ctx, dir, acc, ts) == IF ts = <<>> THEN acc ELSE CountSeq(ctx, dir, RefCount(ctx, dir, acc, Head(ts)), Tail(ts))

RefCount(ctx, dir, acc, T) ==
  CASE T.k = "obj" ->
         IF Cnt(acc, T.cls) > 0 THEN Incr(acc, T.cls)
         ELSE LET K  == ctx.C[T.cls]
                  fs == IF dir = "d" THEN DeserFields(K) ELSE SerFields(K)
                  ts == [i \in DOMAIN fs |-> FType(fs[i])]
                        \o (IF dir = "s" THEN [i \in DOMAIN K.smethods |-> K.smethods[i].rtype] ELSE <<>>)
              IN CountSeq(ctx, dir, Incr(acc, T.cls), ts)
    [] T.k = "enum"    -> Incr(acc, T.cls)
    [] T.k = "newtype" -> IF Cnt(acc, T.name) > 0 THEN Incr(acc, T.name) ELSE RefCount(ctx, dir, Incr(acc, T.name), T.sup)
    [] T.k = "annot"   -> RefCount(ctx, dir, acc, T.t)
    [] T.k = "coll"    -> RefCount(ctx, dir, acc, T.e)
    [] T.k = "tuple"   -> CountSeq(ctx, dir, acc, T.es)
    [] T.k = "map"     -> CountSeq(ctx, dir, acc, <<T.kt, T.vt>>)
    [] T.k = "union"   -> CountSeq(ctx, dir, acc, SelectSeq(T.alts, LAMBDA a : a # TPrim("undef")))
    [] T.k = "dunion"  -> CountSeq(ctx, dir, CountSeq(ctx, dir, acc, T.alts), T.alts)    \* visited one more time
    [] OTHER -> acc

Refs(ctx, dir, T, allRefs) ==
  LET acc == RefCount(ctx, dir, <<>>, T) IN
  {acc[i][1] : i \in {j \in DOMAIN acc : acc[j][2] > (IF allRefs THEN 0 ELSE 1)}}

---------------------------------------------------------------------------
\* ---- Layer R: the rule of the property, stated on the type graph
RECURSIVE NamedIn(_, _, _, _)
\* named types occurring in T (through classes), with `seen` cutting recursion
NamedIn(ctx, dir, T, seen) ==
  CASE T.k = "obj" ->
         {T.cls} \cup (IF T.cls \in seen THEN {}
                       ELSE LET K  == ctx.C[T.cls]
                                fs == IF dir = "d" THEN DeserFields(K) ELSE SerFields(K) IN
                            UNION {NamedIn(ctx, dir, FType(fs[i]), seen \cup {T.cls}) : i \in DOMAIN fs}
                            \cup (IF dir = "s" THEN UNION {NamedIn(ctx, dir, K.smethods[i].rtype, seen \cup {T.cls}) : i \in DOMAIN K.smethods} ELSE {}))
    [] T.k = "enum"    -> {T.cls}
    [] T.k = "newtype" -> {T.name} \cup NamedIn(ctx, dir, T.sup, seen)
    [] T.k = "annot"   -> NamedIn(ctx, dir, T.t, seen)
    [] T.k = "coll"    -> NamedIn(ctx, dir, T.e, seen)
    [] T.k = "tuple"   -> UNION {NamedIn(ctx, dir, T.es[i], seen) : i \in DOMAIN T.es}
    [] T.k = "map"     -> NamedIn(ctx, dir, T.kt, seen) \cup NamedIn(ctx, dir, T.vt, seen)
    [] T.k \in {"union", "dunion"} -> UNION {NamedIn(ctx, dir, T.alts[i], seen) : i \in DOMAIN T.alts}
    [] OTHER -> {}

\* a class is recursive when it occurs below itself
Recursive(ctx, dir, cls) ==
  LET K  == ctx.C[cls]
      fs == IF dir = "d" THEN DeserFields(K) ELSE SerFields(K) IN
  cls \in UNION {NamedIn(ctx, dir, FType(fs[i]), {}) : i \in DOMAIN fs}

RECURSIVE DiscriminatedMembers(_, _, _, _)
DiscriminatedMembers(ctx, dir, T, seen) ==
  CASE T.k = "dunion" -> {Unwrap(T.alts[i]).cls : i \in DOMAIN T.alts}
    [] T.k = "obj" -> IF T.cls \in seen THEN {}
                      ELSE LET fs == IF dir = "d" THEN DeserFields(ctx.C[T.cls]) ELSE SerFields(ctx.C[T.cls]) IN
                           UNION {DiscriminatedMembers(ctx, dir, FType(fs[i]), seen \cup {T.cls}) : i \in DOMAIN fs}
    [] T.k = "newtype" -> DiscriminatedMembers(ctx, dir, T.sup, seen)
    [] T.k = "annot"   -> DiscriminatedMembers(ctx, dir, T.t, seen)
    [] T.k = "coll"    -> DiscriminatedMembers(ctx, dir, T.e, seen)
    [] T.k = "tuple"   -> UNION {DiscriminatedMembers(ctx, dir, T.es[i], seen) : i \in DOMAIN T.es}
    [] T.k = "map"     -> DiscriminatedMembers(ctx, dir, T.vt, seen)
    [] T.k = "union"   -> UNION {DiscriminatedMembers(ctx, dir, T.alts[i], seen) : i \in DOMAIN T.alts}
    [] OTHER -> {}

AllNamed(ctx, dir, T) == NamedIn(ctx, dir, T, {})

\* number of syntactic occurrences of the name n in a type expression (not through classes)
RECURSIVE Occ(_, _)
Occ(T, n) ==
  CASE T.k = "obj"     -> IF T.cls = n THEN 1 ELSE 0
    [] T.k = "enum"    -> IF T.cls = n THEN 1 ELSE 0
    [] T.k = "newtype" -> (IF T.name = n THEN 1 ELSE 0) + Occ(T.sup, n)
    [] T.k = "annot"   -> Occ(T.t, n)
    [] T.k = "coll"    -> Occ(T.e, n)
    [] T.k = "tuple"   -> IF T.es = <<>> THEN 0 ELSE Occ(T.es[1], n) + Occ(TTuple(Tail(T.es)), n)
    [] T.k = "map"     -> Occ(T.kt, n) + Occ(T.vt, n)
    [] T.k \in {"union", "dunion"} -> IF T.alts = <<>> THEN 0 ELSE Occ(T.alts[1], n) + Occ([T EXCEPT !.alts = Tail(T.alts)], n)
    [] OTHER -> 0
RECURSIVE SumOcc(_, _)
SumOcc(ts, n) == IF ts = <<>> THEN 0 ELSE Occ(Head(ts), n) + SumOcc(Tail(ts), n)
\* occurrences of n in T and in the bodies of the classes reachable from T (each body once)
Occurrences(ctx, dir, T, n) ==
  LET classes == SetToSeq(AllNamed(ctx, dir, T) \cap DOMAIN ctx.C)
      body(c) == LET K == ctx.C[c]  fs == IF dir = "d" THEN DeserFields(K) ELSE SerFields(K) IN
                 [i \in DOMAIN fs |-> FType(fs[i])] \o (IF dir = "s" THEN [i \in DOMAIN K.smethods |-> K.smethods[i].rtype] ELSE <<>>)
  IN Occ(T, n) + SumOcc(FlattenSeq([i \in DOMAIN classes |-> body(classes[i])]), n)

\* emission is finite iff no class outside `refs` (the root apart) repeats along a path
RECURSIVE Finite(_, _, _, _, _)
Finite(ctx, dir, T, refs, path) ==
  CASE T.k = "obj" ->
         IF T.cls \in refs /\ path # {} THEN TRUE            \* replaced by $ref (the root is inlined once)
         ELSE IF T.cls \in path THEN FALSE
         ELSE LET K == ctx.C[T.cls]  fs == IF dir = "d" THEN DeserFields(K) ELSE SerFields(K) IN
              \A i \in DOMAIN fs : Finite(ctx, dir, FType(fs[i]), refs, path \cup {T.cls})
    [] T.k = "newtype" -> Finite(ctx, dir, T.sup, refs, path)
    [] T.k = "annot"   -> Finite(ctx, dir, T.t, refs, path)
    [] T.k = "coll"    -> Finite(ctx, dir, T.e, refs, path)
    [] T.k = "tuple"   -> \A i \in DOMAIN T.es : Finite(ctx, dir, T.es[i], refs, path)
    [] T.k = "map"     -> Finite(ctx, dir, T.vt, refs, path)
    [] T.k \in {"union", "dunion"} -> \A i \in DOMAIN T.alts : Finite(ctx, dir, T.alts[i], refs, path)
    [] OTHER -> TRUE
\* what the property requires to be extracted
MustExtract(ctx, dir, T) ==
  {n \in AllNamed(ctx, dir, T) : n \in DOMAIN ctx.C /\ Recursive(ctx, dir, n)} \cup DiscriminatedMembers(ctx, dir, T, {})
=============================================================================
