------------------------------- MODULE Values -------------------------------
(***************************************************************************)
(* Encodings shared by every module of the apischema specification.       *)
(*                                                                         *)
(* TLC cannot compare a string with an integer, so every datum, typed      *)
(* value and type is a *tagged record*: field `k` decides the shape and    *)
(* each kind uses its own payload field names, so two records of different *)
(* kinds never have their payloads compared.                               *)
(*                                                                         *)
(* JSON-like data  d                                                       *)
(*   [k|->"null"] [k|->"bool",b] [k|->"int",n] [k|->"float",h]             *)
(*   [k|->"str",s] [k|->"arr",a : Seq(d)] [k|->"obj",o : Seq(<<key,d>>)]   *)
(*   [k|->"py",c]                (non JSON-shaped Python objects, C03)     *)
(* Numbers: a float carries `h`, an integer count of HALVES (1.5 = 3),     *)
(* so all numeric constraints are exact integer arithmetic.                *)
(*                                                                         *)
(* Typed values  v  (results of deserialize / inputs of serialize)         *)
(*   primitives as data; [k|->"list",a] [k|->"tuple",a] [k|->"set",e]      *)
(*   [k|->"fset",e] [k|->"dict",o : Seq(<<v,v>>)]                          *)
(*   [k|->"inst",cls,f : Seq(<<name,v>>)] [k|->"enum",cls,m] [k|->"undef"] *)
(*   [k|->"box",f,x]   result of the uninterpreted converter f             *)
(* This module has no variables: it can be EXTENDed by trace specs.        *)
(***************************************************************************)
EXTENDS Naturals, Integers, Sequences, FiniteSets, TLC

DNull      == [k |-> "null"]
DBool(b)   == [k |-> "bool", b |-> b]
DInt(n)    == [k |-> "int", n |-> n]
DFloat(h)  == [k |-> "float", h |-> h]
DStr(s)    == [k |-> "str", s |-> s]
DArr(a)    == [k |-> "arr", a |-> a]
DObj(o)    == [k |-> "obj", o |-> o]
DPy(c)     == [k |-> "py", c |-> c]

VList(a)   == [k |-> "list", a |-> a]
VTuple(a)  == [k |-> "tuple", a |-> a]
VSet(e)    == [k |-> "set", e |-> e]
VFSet(e)   == [k |-> "fset", e |-> e]
VDict(o)   == [k |-> "dict", o |-> o]
VInst(c,f) == [k |-> "inst", cls |-> c, f |-> f]
VEnum(c,m) == [k |-> "enum", cls |-> c, m |-> m]
VUndef     == [k |-> "undef"]
VBox(f,x)  == [k |-> "box", f |-> f, x |-> x]

IsNum(d)   == d.k \in {"int", "float"}
\* number of halves of a numeric datum
Num2(d)    == IF d.k = "int" THEN 2 * d.n ELSE d.h
IsPrimD(d) == d.k \in {"null", "bool", "int", "float", "str"}

\* JSON type name used in bad_type messages ("expected type X")
JsonKind(d) == CASE d.k = "null"  -> "null"
                 [] d.k = "bool"  -> "boolean"
                 [] d.k = "int"   -> "integer"
                 [] d.k = "float" -> "number"
                 [] d.k = "str"   -> "string"
                 [] d.k = "arr"   -> "array"
                 [] d.k = "obj"   -> "object"
                 [] OTHER         -> "other"

---------------------------------------------------------------------------
\* Sequences of pairs used as ordered maps.
Range(s)      == {s[i] : i \in DOMAIN s}
Keys(o)       == {o[i][1] : i \in DOMAIN o}
HasKey(o, x)  == \E i \in DOMAIN o : o[i][1] = x
\* last binding wins, as in a Python dict built by successive assignment
Get(o, x)     == o[CHOOSE i \in DOMAIN o : o[i][1] = x /\ \A j \in DOMAIN o : o[j][1] = x => j <= i][2]
GetOr(o, x, dflt) == IF HasKey(o, x) THEN Get(o, x) ELSE dflt

RECURSIVE FlattenSeq(_)
FlattenSeq(ss) == IF ss = <<>> THEN <<>> ELSE Head(ss) \o FlattenSeq(Tail(ss))

RECURSIVE SetToSeq(_)
SetToSeq(S) == IF S = {} THEN <<>> ELSE LET x == CHOOSE y \in S : TRUE IN <<x>> \o SetToSeq(S \ {x})

Max(a, b) == IF a >= b THEN a ELSE b
Min(a, b) == IF a <= b THEN a ELSE b

\* index key of an error location: element i (0-based, as Python reports it)
Idx(i) == "#" \o ToString(i - 1)

---------------------------------------------------------------------------
\* Error sets: a set of <<loc, rule>>, loc a sequence of keys (strings; Idx for ints)
Err(rule)     == { << <<>>, rule >> }
Errs(rules)   == { << <<>>, r >> : r \in rules }
Under(key, E) == { << <<key>> \o x[1], x[2] >> : x \in E }

\* A required entry <<loc, "ANY">> asks for at least one reported error at or below loc.
IsPrefixOf(p, q) == Len(p) <= Len(q) /\ \A i \in DOMAIN p : p[i] = q[i]
Satisfied(req, got) == \A q \in req : IF q[2] = "ANY" THEN \E g \in got : IsPrefixOf(q[1], g[1])
                                       ELSE q \in got
Permitted(got, req, extra) ==
  \A g \in got : \/ g \in req
                  \/ g \in extra
                  \/ \E q \in extra : (q[2] = "ANY" /\ IsPrefixOf(q[1], g[1]))

\* Outcomes of a (de)serialization
Ok(v)      == [ok |-> TRUE,  v |-> v,     e |-> {}, x |-> {}]
Bad(E)     == [ok |-> FALSE, v |-> DNull, e |-> E,  x |-> {}]
\* rejected with required errors E and additionally allowed errors X (sandwich)
BadX(E, X) == [ok |-> FALSE, v |-> DNull, e |-> E,  x |-> X]

\* image of a datum under `Any`: arrays become lists, objects become dicts
RECURSIVE AnyImage(_)
AnyImage(d) ==
  CASE d.k = "arr" -> VList([i \in DOMAIN d.a |-> AnyImage(d.a[i])])
    [] d.k = "obj" -> VDict([i \in DOMAIN d.o |-> <<DStr(d.o[i][1]), AnyImage(d.o[i][2])>>])
    [] OTHER       -> d

\* structural equality of JSON data as Python sees it through to_hashable:
\* used by uniqueItems. 1 = 1.0 (equal numbers); bool vs number conflation is
\* kept out of the universes (see DESIGN A.7).
RECURSIVE DEq(_, _)
DEq(a, b) ==
  IF IsNum(a) /\ IsNum(b) THEN Num2(a) = Num2(b)
  ELSE IF a.k # b.k THEN FALSE
  ELSE CASE a.k = "arr" -> Len(a.a) = Len(b.a) /\ \A i \in DOMAIN a.a : DEq(a.a[i], b.a[i])
         [] a.k = "obj" -> Keys(a.o) = Keys(b.o) /\ \A x \in Keys(a.o) : DEq(Get(a.o, x), Get(b.o, x))
         [] OTHER       -> a = b
=============================================================================
