------------------------------- MODULE Cache --------------------------------
(***************************************************************************)
(* C09 -- cached methods never go stale across configuration histories.    *)
(*                                                                         *)
(* State: cfg   one abstract value per KNOB (every settings attribute,     *)
(*              every registry entry of the sensitive classes)             *)
(*        cache observation KEY -> the projection of cfg the cached        *)
(*              artefact (method / schema factory) was computed from       *)
(*        held  methods the user obtained earlier (may keep the old cfg)   *)
(* Actions, one per code mechanism:                                        *)
(*   Mutate(k, v)  a configuration operation on knob k, performed by the   *)
(*                 mechanism Mech[k][v]:                                   *)
(*      "meta"     metaclass __setattr__ (settings, settings.deserialization...)*)
(*      "plainattr" class attribute of a settings sub-class WITHOUT the    *)
(*                 resetting metaclass (settings.errors, base_schema)      *)
(*      "setitem"  CacheAwareDict.__setitem__                              *)
(*      "delitem"  CacheAwareDict.__delitem__ (pop / reset_* functions)    *)
(*      "inplace"  mutation of a registry VALUE (list.append, inner dict)  *)
(*      "plaindict" a registry that is a plain dict                        *)
(*      "classset" a module-level set (with_fields_set)                    *)
(*   Observe(o)    deserialize / serialize / *_schema on a pool type       *)
(*   Hold(o) / CallHeld(o)  explicit deserialization_method(...) kept      *)
(*   ResetAll      apischema.cache.reset()                                 *)
(* The obligation: EVERY mechanism resets the cache.  NoReset is the set   *)
(* of mechanisms that do not (the pinned tree: delitem, plainattr,         *)
(* plaindict, inplace, classset -- each repaired by a fix: commit, each    *)
(* kept here as a named deviation for the negative model checks).          *)
(* Observation keys: the cache is keyed by Key[o]; two observations with   *)
(* the same key but different dependencies (Union[A, B] vs Union[B, A],    *)
(* equal and hash-equal in typing) are conflated: deviation "unionkey",    *)
(* a KNOWN FINDING of the pinned tree.                                     *)
(***************************************************************************)
EXTENDS Naturals, Sequences, FiniteSets, TLC

CONSTANTS Knobs,      \* set of knob names
          Vals,       \* [Knobs -> set of values]; the first configuration is Init0
          Init0,      \* [Knobs -> initial value]
          Mech,       \* [Knobs -> [value -> mechanism name]]: how that value gets set
          Obs,        \* set of observations
          Deps,       \* [Obs -> SUBSET Knobs]
          Key,        \* [Obs -> cache key]   (identity, except for conflated keys)
          Holdable,   \* observations for which an explicit *_method can be obtained and kept
          NoReset,    \* mechanisms that do not reset the cache (deviations)
          MaxLen      \* bound on the history length

VARIABLES cfg, cache, held, hist, stale
vars == <<cfg, cache, held, hist, stale>>

Keys == {Key[o] : o \in Obs}
Proj(c, o) == [k \in Deps[o] |-> c[k]]

Init == /\ cfg = Init0
        /\ cache = [k \in Keys |-> <<"none">>]
        /\ held = [o \in Obs |-> <<"none">>]
        /\ hist = <<>>
        /\ stale = FALSE

Mutate(k, v) ==
  /\ Len(hist) < MaxLen /\ v \in Vals[k] /\ v # cfg[k]
  /\ cfg' = [cfg EXCEPT ![k] = v]
  /\ cache' = IF Mech[k][v] \in NoReset THEN cache ELSE [kk \in Keys |-> <<"none">>]
  /\ hist' = Append(hist, [op |-> "mutate", knob |-> k, val |-> v])
  /\ UNCHANGED <<held, stale>>

\* what an observation returns: the artefact cached under its key, computed now if absent
Observe(o) ==
  /\ Len(hist) < MaxLen
  /\ LET entry == IF cache[Key[o]] = <<"none">> THEN <<"some", o, Proj(cfg, o)>> ELSE cache[Key[o]] IN
       /\ cache' = [cache EXCEPT ![Key[o]] = entry]
       \* stale: the artefact returned was not computed for this observation under this cfg
       /\ stale' = (stale \/ entry # <<"some", o, Proj(cfg, o)>>)
  /\ hist' = Append(hist, [op |-> "observe", obs |-> o])
  /\ UNCHANGED <<cfg, held>>

Hold(o) == /\ Len(hist) < MaxLen /\ o \in Holdable
           /\ held' = [held EXCEPT ![o] = <<"some", o, Proj(cfg, o)>>]
           /\ hist' = Append(hist, [op |-> "hold", obs |-> o])
           /\ UNCHANGED <<cfg, cache, stale>>

\* only a method the user kept may keep the former behaviour: never counted as stale
CallHeld(o) == /\ Len(hist) < MaxLen /\ held[o] # <<"none">>
               /\ hist' = Append(hist, [op |-> "callheld", obs |-> o])
               /\ UNCHANGED <<cfg, cache, held, stale>>

ResetAll == /\ Len(hist) < MaxLen
            /\ cache' = [kk \in Keys |-> <<"none">>]
            /\ hist' = Append(hist, [op |-> "reset"])
            /\ UNCHANGED <<cfg, held, stale>>

Next == \/ \E k \in Knobs : \E v \in Vals[k] : Mutate(k, v)
        \/ \E o \in Obs : Observe(o) \/ Hold(o) \/ CallHeld(o)
        \/ ResetAll
Spec == Init /\ [][Next]_vars

\* checking configs hide the history
View == <<cfg, cache, held, stale>>

---------------------------------------------------------------------------
\* every cached artefact is the one a cold start with the current configuration computes
NoStale == \A kk \in Keys : cache[kk] # <<"none">> => cache[kk][3] = Proj(cfg, cache[kk][2])
\* no observation ever returned an artefact computed for another observation or another cfg
NeverObservedStale == ~stale
\* two observations sharing a cache key must be interchangeable
KeyFaithful == \A o1, o2 \in Obs : Key[o1] = Key[o2] => o1 = o2
=============================================================================
