-------------------------------- MODULE Names --------------------------------
(***************************************************************************)
(* C11 -- a field has ONE external name across every view.                 *)
(*                                                                         *)
(* Names are SYMBOLIC terms: [base |-> string, apps |-> <<aliaser tags>>]  *)
(* stands for apps[n](...apps[1](base)).  The specification decides WHICH  *)
(* aliasers are composed, in WHICH order, on WHICH base string; the bridge *)
(* evaluates a term with real Python functions (upper, prefix, camelCase,  *)
(* custom: pairwise non-commuting, so a wrong order or a missing / extra   *)
(* application yields a different string).                                 *)
(*                                                                         *)
(* Layer R (the property):                                                 *)
(*    Ext(f) = dyn(classAliaser(alias or name)),  the class aliaser being  *)
(*    skipped for override = FALSE fields, dyn = the per-call aliaser or,  *)
(*    when none is given, settings.aliaser.                                *)
(* Layer M (the code): ObjectVisitor._object rewrites field.alias ONCE     *)
(*    with the class aliaser (PostObject); each view then applies the      *)
(*    dynamic aliaser to what IT reads -- field.alias in every visitor of  *)
(*    the repaired tree.  The pinned tree's views that read something else *)
(*    are named deviations:                                                *)
(*      "gqlname"   GraphQL output builder read field.name                 *)
(*      "depreqraw" dependentRequired entries of the schemas were the      *)
(*                  class-aliased alias, never dynamically aliased         *)
(*      "discardraw" (seeded shape) the validators re-run after a discard  *)
(*                  lose the aliaser: aliases they yield stay raw          *)
(*      "flatname"  (seeded shape) flattened key collection reads names    *)
(*      "arglookupname" (seeded shape) GraphQL arguments looked up by name *)
(***************************************************************************)
EXTENDS Naturals, Sequences, FiniteSets, TLC

CONSTANTS Deviations

Views == {"deser_key", "flat_key", "ser_key", "props_d", "props_s", "required_d", "required_s",
          "depreq_d", "depreq_s", "loc_missing", "loc_type", "loc_validator", "loc_yield",
          "loc_yield_after_discard", "loc_depreq", "gql_out", "gql_in", "gql_arg", "gql_data"}

Term(b)     == [base |-> b, apps |-> <<>>]
App(a, t)   == IF a = "id" THEN t ELSE [t EXCEPT !.apps = Append(@, a)]

\* a field: [name, alias ("" = none), ovr (the class aliaser may override), req]
Base(f)     == IF f.alias # "" THEN f.alias ELSE f.name

\* ---- Layer R
Dyn(call, glob)      == IF call = "default" THEN glob ELSE call
Ext(cal, f, d)       == App(d, IF cal # "none" /\ f.ovr THEN App(cal, Term(Base(f))) ELSE Term(Base(f)))

\* ---- Layer M
\* ObjectVisitor._object / _override_alias: the ALIAS_METADATA of overridable fields is rewritten
PostObject(cal, f)   == IF cal # "none" /\ f.ovr THEN App(cal, Term(Base(f))) ELSE Term(Base(f))
\* what each view reads, then the dynamic aliaser it applies
Reads(view, cal, f)  ==
  CASE view = "gql_out" /\ "gqlname" \in Deviations   -> Term(f.name)
    [] view = "gql_data" /\ "gqlname" \in Deviations  -> Term(f.name)
    [] view = "flat_key" /\ "flatname" \in Deviations -> Term(f.name)
    [] OTHER -> PostObject(cal, f)
Applies(view, d)     ==
  CASE view \in {"depreq_d", "depreq_s"} /\ "depreqraw" \in Deviations    -> "id"
    [] view = "loc_yield_after_discard" /\ "discardraw" \in Deviations    -> "id"
    [] OTHER -> d
ViewName(view, cal, f, d) == App(Applies(view, d), Reads(view, cal, f))

\* ---- resolver / operation parameters: aliased through parameters_metadata, no class aliaser.
\* The name is PUBLISHED by the schema builder and LOOKED UP in kwargs by resolver_resolve:
\* two code sites (deviation "arglookupname": the lookup uses the parameter name -- seeded shape)
ParamExt(p, d) == App(d, Term(Base(p)))
ParamViews == {"gql_arg_published", "gql_arg_lookup", "gql_arg_error_loc"}
ParamView(view, p, d) ==
  IF view = "gql_arg_lookup" /\ "arglookupname" \in Deviations THEN App(d, Term(p.name)) ELSE ParamExt(p, d)
OneParamName(p, d) == \A v \in {"gql_arg_published", "gql_arg_lookup"} : ParamView(v, p, d) = ParamExt(p, d)

\* ---- the law
OneName(cal, f, d) == \A v \in Views : ViewName(v, cal, f, d) = Ext(cal, f, d)
=============================================================================
