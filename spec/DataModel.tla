----------------------------- MODULE DataModel ------------------------------
(***************************************************************************)
(* Layer R -- reference semantics of apischema deserialization, written    *)
(* from docs/data_model.md, de_serialization.md, validation.md (DESIGN     *)
(* Appendix A).  One recursive operator                                    *)
(*                                                                         *)
(*     RD(ctx, T, cons, d)  ->  [ok, v, e, x]                              *)
(*                                                                         *)
(* returns, for type T under accumulated schema constraints `cons`, whether*)
(* datum d conforms (ok), its typed image (v), the set of violations that  *)
(* MUST be reported (e, pairs <<loc, rule>>) and those that MAY be         *)
(* reported in addition (x: the under-specified corners, DESIGN A.7).      *)
(*                                                                         *)
(* ctx == [C  class table      name -> [kind, fields, depreq]              *)
(*         En enum table       name -> Seq(<<member, value datum>>)        *)
(*         O  options          [addl, fbd, coerce, ali]                    *)
(*         S  string attributes  s -> [int, float, boolw, pats]]           *)
(*                                                                         *)
(* Types T:                                                                *)
(*   [k|->"prim",p]  p \in {"none","bool","int","float","str"}             *)
(*   [k|->"any"]                                                           *)
(*   [k|->"coll",c,e]   c \in {"list","set","fset","vtuple","seq"}         *)
(*   [k|->"tuple",es] [k|->"map",kt,vt] [k|->"union",alts]                 *)
(*   [k|->"lit",vals : Seq(primitive datum), mem] [k|->"enum",cls]         *)
(*   [k|->"newtype",name,sup] [k|->"annot",t,cons] [k|->"obj",cls]         *)
(*   [k|->"dunion",alts,alias,keys]   Annotated[Union[..], discriminator]  *)
(* Constraints: Seq(<<name, value>>) (numeric bounds in halves).           *)
(* Fields: [name, alias, type, dk, dv, flat, props, pat, reqmd, skipd,     *)
(*          skips, nau, fbd, kind, cons]                                   *)
(*   dk \in {"req","val","fac"}  dv = default (typed value)                *)
(*   props \in {"no","add","pat"}  kind \in {"normal","ro","wo"}           *)
(***************************************************************************)
EXTENDS Values

TPrim(p)       == [k |-> "prim", p |-> p]
TAny           == [k |-> "any"]
TColl(c, e)    == [k |-> "coll", c |-> c, e |-> e]
TTuple(es)     == [k |-> "tuple", es |-> es]
TMap(kt, vt)   == [k |-> "map", kt |-> kt, vt |-> vt]
TUnion(alts)   == [k |-> "union", alts |-> alts]
TLit(vals)     == [k |-> "lit", vals |-> vals, mem |-> <<>>]
\* a Literal some of whose values are MEMBERS of an Enum: vals[i] is the member's value (the datum), mem[i] the
\* member (VEnum) or [k |-> "none"] for a primitive value; the typed image of vals[i] is LitImg(T, i)
TLitM(vals, mem) == [k |-> "lit", vals |-> vals, mem |-> mem]
LitImg(T, i)   == IF i \in DOMAIN T.mem /\ T.mem[i].k = "enum" THEN T.mem[i] ELSE T.vals[i]
TEnum(c)       == [k |-> "enum", cls |-> c]
TNew(n, s)     == [k |-> "newtype", name |-> n, sup |-> s]
TAnnot(t, c)   == [k |-> "annot", t |-> t, cons |-> c]
TObj(c)        == [k |-> "obj", cls |-> c]
TOpt(t)        == TUnion(<<t, TPrim("none")>>)
\* discriminated union of object types: datum[alias] \in keys[i] selects alts[i].
\* mode "default": the mapping is the implicit one (the values of the alternative's Literal
\* field aliased `alias` when it has one, else its type name); "explicit": passed by the user
TDUnion(alts, alias, keys, mode) == [k |-> "dunion", alts |-> alts, alias |-> alias, keys |-> keys, mode |-> mode]

---------------------------------------------------------------------------
\* Naming: external name of a field under the per-call / global aliaser.
\* O.ali is the graph of the aliaser on the names in play (pairs <<name, alias>>).
Ali(ctx, s) == GetOr(ctx.O.ali, s, s)
Ext(ctx, f) == Ali(ctx, f.alias)

\* String attributes (regex match, int()/float() parsing, boolean words are
\* computed by Python's own re/int/float and carried with the case).
SAttr(ctx, s) == ctx.S[s]
Matches(ctx, s, pid) == pid \in Range(SAttr(ctx, s).pats)

---------------------------------------------------------------------------
\* Constraints.  All constraints met on the way down are conjoined (the
\* documented merge -- max of mins, min of maxes, lcm of multiples -- is
\* exactly the conjunction).
ConsVal(cons, name) == Get(cons, name)
HasCons(cons, name) == HasKey(cons, name)

NumViol(cons, d) ==
  LET n == Num2(d) IN
    {r \in {"minimum", "maximum", "exclusiveMinimum", "exclusiveMaximum", "multipleOf"} :
       \/ r = "minimum"          /\ HasCons(cons, "min")     /\ n <  ConsVal(cons, "min")
       \/ r = "maximum"          /\ HasCons(cons, "max")     /\ n >  ConsVal(cons, "max")
       \/ r = "exclusiveMinimum" /\ HasCons(cons, "exc_min") /\ n <= ConsVal(cons, "exc_min")
       \/ r = "exclusiveMaximum" /\ HasCons(cons, "exc_max") /\ n >= ConsVal(cons, "exc_max")
       \/ r = "multipleOf"       /\ HasCons(cons, "mult_of") /\ n % ConsVal(cons, "mult_of") # 0}

StrViol(ctx, cons, d) ==
    {r \in {"minLength", "maxLength", "pattern"} :
       \/ r = "minLength" /\ HasCons(cons, "min_len") /\ Len(d.s) < ConsVal(cons, "min_len")
       \/ r = "maxLength" /\ HasCons(cons, "max_len") /\ Len(d.s) > ConsVal(cons, "max_len")
       \/ r = "pattern"   /\ \E i \in DOMAIN cons : cons[i][1] = "pattern" /\ ~Matches(ctx, d.s, cons[i][2])}

Distinct(a) == \A i, j \in DOMAIN a : i < j => ~DEq(a[i], a[j])

ArrViol(cons, d) ==
    {r \in {"minItems", "maxItems", "uniqueItems"} :
       \/ r = "minItems"    /\ HasCons(cons, "min_items") /\ Len(d.a) < ConsVal(cons, "min_items")
       \/ r = "maxItems"    /\ HasCons(cons, "max_items") /\ Len(d.a) > ConsVal(cons, "max_items")
       \/ r = "uniqueItems" /\ HasCons(cons, "unique") /\ ~Distinct(d.a)}

ObjViol(cons, d) ==
    {r \in {"minProperties", "maxProperties"} :
       \/ r = "minProperties" /\ HasCons(cons, "min_props") /\ Len(d.o) < ConsVal(cons, "min_props")
       \/ r = "maxProperties" /\ HasCons(cons, "max_props") /\ Len(d.o) > ConsVal(cons, "max_props")}

\* conjunction of same-named constraints: keep the strongest so that the
\* Get() used above sees one binding per name
RECURSIVE Strongest(_, _, _)
Strongest(cons, name, i) ==
  IF i > Len(cons) THEN <<>>
  ELSE LET rest == Strongest(cons, name, i + 1) IN
       IF cons[i][1] # name THEN rest
       ELSE IF rest = <<>> THEN <<cons[i][2]>>
       ELSE IF name \in {"min", "exc_min", "min_len", "min_items", "min_props"}
              THEN <<Max(cons[i][2], rest[1])>>
       ELSE IF name \in {"max", "exc_max", "max_len", "max_items", "max_props"}
              THEN <<Min(cons[i][2], rest[1])>>
       ELSE rest   \* mult_of / pattern / unique: handled by conjunction below

ConsNames == {"min", "max", "exc_min", "exc_max", "min_len", "max_len",
              "min_items", "max_items", "min_props", "max_props"}

\* normal form: one binding per bound-like name (the strongest); mult_of,
\* pattern, unique bindings all kept (they are checked conjunctively).
NormCons(cons) ==
  LET bounds == {n \in ConsNames : HasKey(cons, n)}
      bseq   == SetToSeq(bounds)
  IN  [i \in DOMAIN bseq |-> <<bseq[i], Strongest(cons, bseq[i], 1)[1]>>]
      \o SelectSeq(cons, LAMBDA c : c[1] \in {"mult_of", "pattern", "unique"})

MultViol(cons, d) == \E i \in DOMAIN cons : cons[i][1] = "mult_of" /\ Num2(d) % cons[i][2] # 0

NumViolAll(cons, d) ==
  LET nc == NormCons(cons) IN
    (NumViol(nc, d) \ {"multipleOf"}) \cup (IF MultViol(cons, d) THEN {"multipleOf"} ELSE {})

---------------------------------------------------------------------------
\* Coercion table (docs/de_serialization.md #coercion, DESIGN A.4).
\* CoerceTo(ctx, p, d) = <<"ok", d'>> | <<"bad">> | <<"any">> (unspecified).
BoolWord(ctx, s) == SAttr(ctx, s).boolw     \* "t" | "f" | "none"

CoerceTo(ctx, p, d) ==
  CASE p = "none" ->
         IF d.k = "null" \/ (d.k = "str" /\ d.s = "") THEN <<"ok", DNull>> ELSE <<"bad">>
    [] p = "bool" ->
         CASE d.k = "bool" -> <<"ok", d>>
           [] d.k = "str"  -> IF BoolWord(ctx, d.s) = "none" THEN <<"bad">>
                              ELSE <<"ok", DBool(BoolWord(ctx, d.s) = "t")>>
           [] d.k = "int"  -> <<"ok", DBool(d.n # 0)>>
           [] OTHER        -> <<"bad">>
    [] p = "int" ->
         CASE d.k = "int"   -> <<"ok", d>>
           [] d.k = "bool"  -> <<"bad">>        \* a bool is never a number (strict check after coercion)
           [] d.k = "float" -> IF d.h >= 0 THEN <<"ok", DInt(d.h \div 2)>>
                               ELSE <<"ok", DInt(-((-d.h) \div 2))>>     \* int() truncates
           [] d.k = "str"   -> IF SAttr(ctx, d.s).int[1] = "y" THEN <<"ok", DInt(SAttr(ctx, d.s).int[2])>>
                               ELSE IF SAttr(ctx, d.s).int[1] = "x" THEN <<"any">>
                               ELSE <<"bad">>
           [] OTHER         -> <<"bad">>
    [] p = "float" ->
         CASE d.k = "float" -> <<"ok", d>>
           [] d.k = "int"   -> <<"ok", DFloat(2 * d.n)>>
           [] d.k = "bool"  -> <<"any">>        \* float(True): outside the documented table
           [] d.k = "str"   -> IF SAttr(ctx, d.s).float[1] = "y" THEN <<"ok", DFloat(SAttr(ctx, d.s).float[2])>>
                               ELSE IF SAttr(ctx, d.s).float[1] = "x" THEN <<"any">>
                               ELSE <<"bad">>
           [] OTHER         -> <<"bad">>
    [] p = "str" ->
         CASE d.k = "str"   -> <<"ok", d>>
           [] d.k = "int"   -> <<"ok", DStr(ToString(d.n))>>
           [] d.k = "float" -> <<"str-of-float">>   \* str(1.5): image supplied by the harness
           [] OTHER         -> <<"bad">>
    [] OTHER -> <<"bad">>

---------------------------------------------------------------------------
\* Primitives (strict): bool is not a number, an integer is a float.
PrimKinds(p) == CASE p = "none"  -> {"null"}
                  [] p = "undef" -> {}          \* UndefinedType: no datum deserializes to it
                  [] p = "bool"  -> {"bool"}
                  [] p = "int"   -> {"int"}
                  [] p = "float" -> {"int", "float"}
                  [] p = "str"   -> {"str"}

PrimJson(p) == CASE p = "none" -> "null" [] p = "bool" -> "boolean" [] p = "int" -> "integer"
                 [] p = "float" -> "number" [] p = "str" -> "string" [] p = "undef" -> "undefined"

PrimStrict(ctx, p, cons, d) ==
  IF d.k \notin PrimKinds(p) THEN Bad(Err("type:" \o PrimJson(p)))
  ELSE LET v == IF p = "float" THEN DFloat(Num2(d)) ELSE d
           viol == CASE p \in {"int", "float"} -> NumViolAll(cons, v)
                     [] p = "str"              -> StrViol(ctx, NormCons(cons), v)
                     [] OTHER                  -> {}
       IN IF viol = {} THEN Ok(v) ELSE Bad(Errs(viol))

\* either outcome is accepted (under-specified corner): reported as ok with flag
Unspecified == [ok |-> TRUE, v |-> [k |-> "unspecified"], e |-> {}, x |-> {}]
IsUnspec(r) == r.ok /\ r.v.k = "unspecified"

\* what a child outcome allows in addition: its own allowed set, or anything at all below an
\* unspecified node (entry <<loc, "ANY">> of an allowed set = any error at or below loc)
XOf(r) == IF IsUnspec(r) THEN {<< <<>>, "ANY" >>} ELSE IF r.ok THEN {} ELSE r.x

RPrim(ctx, p, cons, d) ==
  IF ~ctx.O.coerce THEN PrimStrict(ctx, p, cons, d)
  ELSE LET c == CoerceTo(ctx, p, d) IN
       CASE c[1] = "ok"  -> PrimStrict(ctx, p, cons, c[2])
         [] c[1] = "bad" -> Bad(Err("type:" \o PrimJson(p)))
         [] OTHER        -> Unspecified

---------------------------------------------------------------------------
\* Literal / Enum: by value, of the same JSON kind (1 # true, DESIGN A.1).
\* numbers are compared by value (2.0 matches Literal[2], as JSON Schema's enum does);
\* booleans are not numbers
LitEq(v, d)       == IF IsNum(v) /\ IsNum(d) THEN Num2(v) = Num2(d) ELSE v = d
LitMatch(vals, d) == {i \in DOMAIN vals : LitEq(vals[i], d)}

LitKindsJson(vals) == {JsonKind(vals[i]) : i \in DOMAIN vals}

\* error rules of a non-matching datum: an unhashable datum (array/object) is a
\* bad type for every class of the literal values; anything else is "oneOf"
LitErr(vals, d) ==
  IF d.k \in {"arr", "obj"} THEN Errs({"type:" \o j : j \in LitKindsJson(vals)})
  ELSE Err("oneOf")

\* under coercion a failed coercion to one of the literal classes may be reported as a bad
\* type instead of "oneOf": something must be reported here, which of the two is left open
LitBad(ctx, vals, d) ==
  IF ~ctx.O.coerce THEN Bad(LitErr(vals, d))
  ELSE BadX({<< <<>>, "ANY" >>}, Err("oneOf") \cup Errs({"type:" \o j : j \in LitKindsJson(vals)}))

\* the classes (as primitive type names) of the literal values, for coercion
KindPrim(kk) == CASE kk = "null" -> "none" [] kk = "bool" -> "bool" [] kk = "int" -> "int"
                  [] kk = "float" -> "float" [] kk = "str" -> "str"

RLitIdx(ctx, vals, d) ==
  \* 0 = no match, -1 = unspecified, i = index of the matched value
  IF LitMatch(vals, d) # {} THEN CHOOSE i \in LitMatch(vals, d) : \A j \in LitMatch(vals, d) : i <= j
  ELSE IF ~ctx.O.coerce \/ ~IsPrimD(d) THEN 0
  ELSE LET tries == {p \in {KindPrim(vals[i].k) : i \in DOMAIN vals} : TRUE}
           res(p) == CoerceTo(ctx, p, d)
           hits   == {i \in DOMAIN vals : \E p \in tries : res(p)[1] = "ok" /\ LitEq(vals[i], res(p)[2])}
           unsp   == \E p \in tries : res(p)[1] \notin {"ok", "bad"}
       IN  IF Cardinality(hits) = 1 /\ ~unsp THEN CHOOSE i \in hits : TRUE
           ELSE IF hits = {} /\ ~unsp THEN 0
           ELSE -1      \* several classes coerce to different members: order of classes unspecified

---------------------------------------------------------------------------
\* Objects
DeserFields(K)  == SelectSeq(K.fields, LAMBDA f : ~f.skipd /\ f.kind # "ro")
IsNormal(f)     == ~f.flat /\ f.props = "no"
FRequired(f)    == f.dk = "req" \/ f.reqmd
FFallBack(ctx, f) == (f.fbd \/ ctx.O.fbd) /\ f.dk # "req"

\* the field type seen by deserialization: none_as_undefined removes None
RECURSIVE DropNone(_)
DropNone(T) ==
  IF T.k = "annot" THEN TAnnot(DropNone(T.t), T.cons)
  ELSE IF T.k = "union" /\ \E i \in DOMAIN T.alts : T.alts[i] = TPrim("none")
    THEN LET rest == SelectSeq(T.alts, LAMBDA a : a # TPrim("none")) IN
         IF Len(rest) = 1 THEN rest[1] ELSE TUnion(rest)
  ELSE T
FType(f) == IF f.nau THEN DropNone(f.type) ELSE f.type

\* external names owned by a flattened field: the normal (non aggregate) field
\* names of the flattened class, recursively through its own flattened fields
RECURSIVE Unwrap(_)
Unwrap(T) == IF T.k \in {"annot"} THEN Unwrap(T.t)
             ELSE IF T.k = "newtype" THEN Unwrap(T.sup)
             ELSE IF T.k = "union" /\ Len(T.alts) = 2 /\ T.alts[2] = TPrim("none") THEN Unwrap(T.alts[1])
             ELSE T

RECURSIVE FlatAliases(_, _)
FlatAliases(ctx, cls) ==
  LET fs == DeserFields(ctx.C[cls]) IN
    UNION {IF fs[i].flat THEN FlatAliases(ctx, Unwrap(fs[i].type).cls)
           ELSE IF IsNormal(fs[i]) THEN {fs[i].alias} ELSE {} : i \in DOMAIN fs}

SubObj(d, keyset) == DObj(SelectSeq(d.o, LAMBDA p : p[1] \in keyset))

RECURSIVE RD(_, _, _, _)
RECURSIVE RObj(_, _, _, _, _)
RECURSIVE MUnion(_, _, _, _)

\* deserialization of one object.  `disc` is the discriminator key tolerated
\* in the data ("" when the object is not reached through a discriminated union)
RObj(ctx, cls, cons, d, disc) ==
  IF d.k # "obj" THEN Bad(Err("type:object"))
  ELSE
  LET K       == ctx.C[cls]
      fs      == DeserFields(K)
      keys    == Keys(d.o)
      \* names consumed by the REGULAR fields.  The name of a flattened / properties field is no property of
      \* the object (no view lists it): as a key it is handled like any other key.  Deviation "aggnames"
      \* (pinned tree, repaired): aggregate field names were reserved too and such a key silently dropped.
      names   == {Ext(ctx, fs[i]) : i \in {j \in DOMAIN fs : IsNormal(fs[j]) \/ "aggnames" \in ctx.O.dev}}
      remain0 == keys \ names
      \* ---- normal fields
      present(f) == Ext(ctx, f) \in keys
      fres(f)  == RD(ctx, FType(f), f.cons, Get(d.o, Ext(ctx, f)))
      ignored(f) == present(f) /\ ~fres(f).ok /\ FFallBack(ctx, f) /\ ~FRequired(f)
      fErr(f)  ==
        IF present(f) THEN
             IF fres(f).ok \/ ignored(f) THEN {} ELSE Under(Ext(ctx, f), fres(f).e)
        ELSE IF FRequired(f) THEN Under(Ext(ctx, f), Err("missing"))
        ELSE IF \E j \in DOMAIN K.depreq :
                    /\ \E q \in Range(K.depreq[j][2]) : q = f.name
                    /\ \E g \in Range(fs) : g.name = K.depreq[j][1] /\ Ext(ctx, g) \in keys
             THEN Under(Ext(ctx, f), Err("missing"))
        ELSE {}
      fErrX(f) == IF present(f) /\ ~ignored(f) THEN Under(Ext(ctx, f), XOf(fres(f))) ELSE {}
      unspecF(f) == present(f) /\ IsUnspec(fres(f))
      fVal(f)  == IF present(f) /\ fres(f).ok THEN fres(f).v ELSE f.dv
      \* ---- aggregate fields, attributed in order: flattened, pattern, additional
      flatKeys(f) == {Ali(ctx, a) : a \in FlatAliases(ctx, Unwrap(f.type).cls)}
      flats    == SelectSeq(fs, LAMBDA f : f.flat)
      pats     == SelectSeq(fs, LAMBDA f : f.props = "pat")
      adds     == SelectSeq(fs, LAMBDA f : f.props = "add")
      allFlat  == UNION {flatKeys(flats[i]) : i \in DOMAIN flats}
      remain1  == remain0 \ allFlat
      \* pattern fields take, in declaration order, the remaining keys they match
      patTake[i \in 0..Len(pats)] ==
         IF i = 0 THEN <<{}, remain1>>
         ELSE LET prev == patTake[i - 1]
                  mine == {key \in prev[2] : Matches(ctx, key, pats[i].pat)}
              IN <<mine, prev[2] \ mine>>
      remain2  == patTake[Len(pats)][2]
      aggData(f) ==
         IF f.flat THEN SubObj(d, flatKeys(f) \cap keys)
         ELSE IF f.props = "pat"
           THEN SubObj(d, patTake[CHOOSE i \in DOMAIN pats : pats[i] = f][1])
         ELSE SubObj(d, remain2)
      ares(f)  == RD(ctx, FType(f), f.cons, aggData(f))
      aIgn(f)  == ~ares(f).ok /\ FFallBack(ctx, f)
      aErr(f)  == IF ares(f).ok \/ aIgn(f) THEN {} ELSE ares(f).e     \* merged at the parent's level
      aErrX(f) == IF aIgn(f) THEN {} ELSE XOf(ares(f))
      aVal(f)  == IF ares(f).ok THEN ares(f).v ELSE f.dv
      left     == IF adds # <<>> THEN {} ELSE remain2 \ {disc}
      unexpected == IF ctx.O.addl THEN {} ELSE UNION {Under(key, Err("unexpected")) : key \in left}
      ownViol  == Errs(ObjViol(NormCons(cons), d))
      allErr   == ownViol \cup unexpected
                  \cup UNION {IF IsNormal(fs[i]) THEN fErr(fs[i]) ELSE aErr(fs[i]) : i \in DOMAIN fs}
      allErrX  == UNION {IF IsNormal(fs[i]) THEN fErrX(fs[i]) ELSE aErrX(fs[i]) : i \in DOMAIN fs}
      unspec   == \E i \in DOMAIN fs :
                     IF IsNormal(fs[i]) THEN unspecF(fs[i]) ELSE IsUnspec(ares(fs[i]))
      \* ---- image
      val(f)   == IF IsNormal(f) THEN fVal(f) ELSE aVal(f)
      isAbsentTD(f) == K.kind = "typeddict" /\ IsNormal(f) /\ ~(present(f) /\ fres(f).ok)
      kept     == SelectSeq(fs, LAMBDA f : ~isAbsentTD(f))
      extraTD  == IF K.kind = "typeddict" /\ ctx.O.addl /\ adds = <<>>
                  THEN SelectSeq(d.o, LAMBDA p : p[1] \in left) ELSE <<>>
      stored   == SelectSeq(K.fields, LAMBDA f : f.kind # "wo")     \* InitVar is not stored
      image    ==
        IF K.kind = "typeddict"
        THEN VDict([i \in DOMAIN kept |-> <<DStr(kept[i].name), val(kept[i])>>]
                   \o [i \in DOMAIN extraTD |-> <<DStr(extraTD[i][1]), AnyImage(extraTD[i][2])>>])
        ELSE VInst(cls, [i \in DOMAIN stored |->
                           <<stored[i].name,
                             LET x == IF stored[i].skipd \/ stored[i].kind = "ro" THEN stored[i].dv
                                      ELSE val(stored[i]) IN
                             \* __post_init__ of the class (own or inherited) runs on construction
                             IF K.postinc = stored[i].name /\ x.k = "int" THEN DInt(x.n + 100) ELSE x>>])
  IN IF allErr # {} THEN BadX(allErr, allErrX)
     ELSE IF unspec THEN Unspecified
     ELSE Ok(image)

---------------------------------------------------------------------------
(***************************************************************************)
(* Layer M for unions (ctx.O.impl = TRUE): the three strategies selected by *)
(* DeserializationMethodVisitor.union -- OptionalMethod, UnionByTypeMethod  *)
(* (dispatch on the class of the datum) and UnionMethod (try in order) --   *)
(* as the code selects and executes them.  That each strategy gives what    *)
(* "the first accepting alternative" gives is the obligation TLC checks     *)
(* (C13); every other node has the same shape in the code as in Layer R.    *)
(***************************************************************************)
\* the class a method factory declares (DeserializationMethodFactory.cls), "" when none
RECURSIVE AltCls(_)
AltCls(t) == CASE t.k = "prim"    -> t.p
               [] t.k \in {"coll", "tuple"} -> "list"
               [] t.k \in {"map", "obj"}    -> "dict"
               [] t.k = "newtype" -> AltCls(t.sup)
               [] t.k = "annot"   -> AltCls(t.t)
               [] OTHER           -> ""
ClsJson(c) == CASE c = "list" -> "array" [] c = "dict" -> "object" [] OTHER -> PrimJson(c)
DataCls(d) == CASE d.k = "null" -> "none" [] d.k = "arr" -> "list" [] d.k = "obj" -> "dict" [] OTHER -> d.k

UnionStrategy(ctx, T) ==
  LET cls == [i \in DOMAIN T.alts |-> AltCls(T.alts[i])] IN
  IF Len(T.alts) = 2 /\ \E i \in DOMAIN T.alts : T.alts[i] = TPrim("none") THEN "optional"
  ELSE IF /\ \A i \in DOMAIN cls : cls[i] # ""
          /\ \A i, j \in DOMAIN cls : i # j => cls[i] # cls[j]
          /\ ~ctx.O.coerce            \* every alternative with a class is a CoercerMethod under coercion
       THEN "bytype"
  ELSE "sequential"

MUnion(ctx, T, cons, d) ==
  LET strat == UnionStrategy(ctx, T)
      r     == [i \in DOMAIN T.alts |-> RD(ctx, T.alts[i], cons, d)]
      cls   == [i \in DOMAIN T.alts |-> AltCls(T.alts[i])]
  IN
  CASE strat = "optional" ->
         LET vi == CHOOSE i \in DOMAIN T.alts : T.alts[i] # TPrim("none") IN
         IF d.k = "null" THEN Ok(DNull)
         ELSE IF r[vi].ok THEN r[vi]
         ELSE IF ctx.O.coerce /\ CoerceTo(ctx, "none", d)[1] = "ok" THEN Ok(DNull)
         ELSE BadX(r[vi].e \cup Err("type:null"), r[vi].x)
    [] strat = "bytype" ->
         LET dc   == IF DataCls(d) = "int" /\ \A i \in DOMAIN cls : cls[i] # "int" THEN "float" ELSE DataCls(d)
             hit  == {i \in DOMAIN cls : cls[i] = dc}
             \* an integer rejected by the int alternative is still tried as a number (deviation
             \* "nofloatfallback" is the by-type dispatch of the pinned tree, repaired by a fix: commit)
             fl   == IF dc = "int" /\ "nofloatfallback" \notin ctx.O.dev
                     THEN {i \in DOMAIN cls : cls[i] = "float"} ELSE {}
         IN IF hit = {} THEN Bad(Errs({"type:" \o ClsJson(cls[i]) : i \in DOMAIN cls}))
            ELSE LET i == CHOOSE j \in hit : TRUE IN
                 IF r[i].ok THEN r[i]
                 ELSE IF fl # {} /\ r[CHOOSE j \in fl : TRUE].ok THEN r[CHOOSE j \in fl : TRUE]
                 ELSE LET tried == {i} \cup fl IN
                      BadX(UNION {r[j].e : j \in tried}
                             \cup Errs({"type:" \o ClsJson(cls[j]) : j \in DOMAIN cls \ tried}),
                           UNION {r[j].x : j \in tried})
    [] OTHER ->
         LET oks == {i \in DOMAIN r : r[i].ok} IN
         IF oks # {} THEN r[CHOOSE i \in oks : \A j \in oks : i <= j]
         ELSE BadX(UNION {r[i].e : i \in DOMAIN r}, UNION {r[i].x : i \in DOMAIN r})

RD(ctx, T, cons, d) ==
  CASE T.k = "prim"    -> RPrim(ctx, T.p, cons, d)
    [] T.k = "any"     ->
         LET viol == CASE d.k \in {"int", "float"} -> NumViolAll(cons, d)
                       [] d.k = "str" -> StrViol(ctx, NormCons(cons), d)
                       [] d.k = "arr" -> ArrViol(NormCons(cons), d)
                       [] d.k = "obj" -> ObjViol(NormCons(cons), d)
                       [] OTHER -> {}
         IN IF viol = {} THEN Ok(AnyImage(d)) ELSE Bad(Errs(viol))
    [] T.k = "newtype" -> RD(ctx, T.sup, cons, d)
    [] T.k = "annot"   -> RD(ctx, T.t, T.cons \o cons, d)
    [] T.k = "coll"    ->
         IF d.k # "arr" THEN Bad(Err("type:array"))
         ELSE LET r    == [i \in DOMAIN d.a |-> RD(ctx, T.e, <<>>, d.a[i])]
                  own  == Errs(ArrViol(NormCons(cons), d))
                  sub  == UNION {IF r[i].ok THEN {} ELSE Under(Idx(i), r[i].e) : i \in DOMAIN r}
                  subx == UNION {Under(Idx(i), XOf(r[i])) : i \in DOMAIN r}
                  vs   == [i \in DOMAIN r |-> r[i].v]
              IN IF own \cup sub # {} THEN BadX(own \cup sub, subx)
                 ELSE IF \E i \in DOMAIN r : IsUnspec(r[i]) THEN Unspecified
                 ELSE Ok(CASE T.c \in {"list", "seq"} -> VList(vs)         \* an abstract Sequence[X] is built as a list
                           [] T.c = "vtuple" -> VTuple(vs)
                           [] T.c = "set"    -> VSet(Range(vs))
                           [] T.c = "fset"   -> VFSet(Range(vs)))
    [] T.k = "tuple"   ->
         IF d.k # "arr" THEN Bad(Err("type:array"))
         ELSE IF Len(d.a) < Len(T.es) THEN Bad(Err("minItems"))
         ELSE IF Len(d.a) > Len(T.es) THEN Bad(Err("maxItems"))
         ELSE LET r    == [i \in DOMAIN d.a |-> RD(ctx, T.es[i], <<>>, d.a[i])]
                  own  == Errs(ArrViol(NormCons(cons), d))
                  sub  == UNION {IF r[i].ok THEN {} ELSE Under(Idx(i), r[i].e) : i \in DOMAIN r}
                  subx == UNION {Under(Idx(i), XOf(r[i])) : i \in DOMAIN r}
              IN IF own \cup sub # {} THEN BadX(own \cup sub, subx)
                 ELSE IF \E i \in DOMAIN r : IsUnspec(r[i]) THEN Unspecified
                 ELSE Ok(VTuple([i \in DOMAIN r |-> r[i].v]))
    [] T.k = "map"     ->
         IF d.k # "obj" THEN Bad(Err("type:object"))
         ELSE LET kr   == [i \in DOMAIN d.o |-> RD(ctx, T.kt, <<>>, DStr(d.o[i][1]))]
                  vr   == [i \in DOMAIN d.o |-> RD(ctx, T.vt, <<>>, d.o[i][2])]
                  own  == Errs(ObjViol(NormCons(cons), d))
                  \* an item whose key AND value are both bad must report something under its
                  \* key (rule "ANY": at least one error at or below that location); which of
                  \* the two sets of errors is left open (sandwich, DESIGN A.3)
                  \* (the same when the other half is a corner the reference leaves unspecified: the code may
                  \* reject it first and never look at the half known to be bad)
                  sub  == UNION {IF ~kr[i].ok /\ (~vr[i].ok \/ IsUnspec(vr[i])) THEN {<< <<d.o[i][1]>>, "ANY" >>}
                                 ELSE IF ~vr[i].ok /\ IsUnspec(kr[i]) THEN {<< <<d.o[i][1]>>, "ANY" >>}
                                 ELSE IF ~kr[i].ok THEN Under(d.o[i][1], kr[i].e)
                                 ELSE IF ~vr[i].ok THEN Under(d.o[i][1], vr[i].e) ELSE {} : i \in DOMAIN d.o}
                  subx == UNION {(IF ~kr[i].ok THEN Under(d.o[i][1], kr[i].e) ELSE {})
                                 \cup (IF ~vr[i].ok THEN Under(d.o[i][1], vr[i].e) ELSE {})
                                 \cup Under(d.o[i][1], XOf(kr[i]) \cup XOf(vr[i])) : i \in DOMAIN d.o}
              IN IF own \cup sub # {} THEN BadX(own \cup sub, subx)
                 ELSE IF \E i \in DOMAIN d.o : IsUnspec(kr[i]) \/ IsUnspec(vr[i]) THEN Unspecified
                 ELSE Ok(VDict([i \in DOMAIN d.o |-> <<kr[i].v, vr[i].v>>]))
    [] T.k = "union" /\ (\E i \in DOMAIN T.alts : T.alts[i] = TPrim("undef")) ->
         \* UndefinedType is not a deserializable alternative: Union[T, UndefinedType] reads as T
         LET rest == SelectSeq(T.alts, LAMBDA a : a # TPrim("undef")) IN
         IF Len(rest) = 1 THEN RD(ctx, rest[1], cons, d) ELSE RD(ctx, TUnion(rest), cons, d)
    [] T.k = "union"   ->
         IF ctx.O.impl THEN MUnion(ctx, T, cons, d)
         ELSE
         LET r   == [i \in DOMAIN T.alts |-> RD(ctx, T.alts[i], cons, d)]
             oks == {i \in DOMAIN r : r[i].ok}
             isOpt == Len(T.alts) = 2 /\ \E i \in DOMAIN T.alts : T.alts[i] = TPrim("none")
         IN IF oks # {} THEN
                 LET first == CHOOSE i \in oks : \A j \in oks : i <= j IN
                 \* under coercion Optional[T] tries T first and None (from "") last
                 IF ctx.O.coerce /\ isOpt /\ d.k # "null" /\ Cardinality(oks) = 2
                   THEN r[CHOOSE i \in oks : T.alts[i] # TPrim("none")]
                 ELSE r[first]
            ELSE BadX(UNION {r[i].e : i \in DOMAIN r}, UNION {XOf(r[i]) : i \in DOMAIN r})
    [] T.k = "lit"     ->
         LET i == RLitIdx(ctx, T.vals, d) IN
           IF i > 0 THEN Ok(LitImg(T, i)) ELSE IF i = 0 THEN LitBad(ctx, T.vals, d) ELSE Unspecified
    [] T.k = "enum"    ->
         LET ms   == ctx.En[T.cls]
             vals == [i \in DOMAIN ms |-> ms[i][2]]
             i    == RLitIdx(ctx, vals, d)
         IN IF i > 0 THEN Ok(VEnum(T.cls, ms[i][1])) ELSE IF i = 0 THEN LitBad(ctx, vals, d) ELSE Unspecified
    [] T.k = "obj"     -> RObj(ctx, T.cls, cons, d, "")
    [] T.k = "dunion"  ->
         \* the discriminator property selects the alternative; it is tolerated in the
         \* selected object even when it is not one of its fields
         LET al == Ali(ctx, T.alias) IN
         IF d.k # "obj" THEN Bad(Err("type:object"))
         ELSE IF ~HasKey(d.o, al) THEN Bad(Under(al, Err("missing")))
         ELSE LET tag == Get(d.o, al)
                  hit == {i \in DOMAIN T.keys : tag.k = "str" /\ \E j \in DOMAIN T.keys[i] : T.keys[i][j] = tag.s}
              IN IF hit = {} THEN Bad(Under(al, Err("oneOf")))
                 ELSE RObj(ctx, Unwrap(T.alts[CHOOSE i \in hit : TRUE]).cls, cons, d, al)

---------------------------------------------------------------------------
\* Under-specified corner (DESIGN A.7): for an integer datum, a union in which an
\* alternative accepting it as a float comes before one accepting it as an int has two
\* defensible images (2.0 by "first accepting alternative", 2 by "the alternative of the
\* datum's own JSON type").  Images of such types are compared modulo int/float.
RECURSIVE AcceptsNum(_, _, _)
\* does T (at its root, through newtype/annot/union) accept numbers as float (w="float") / int (w="int")
AcceptsNum(ctx, T, w) ==
  CASE T.k = "prim"    -> T.p = w
    [] T.k = "any"     -> w = "int"
    [] T.k = "newtype" -> AcceptsNum(ctx, T.sup, w)
    [] T.k = "annot"   -> AcceptsNum(ctx, T.t, w)
    [] T.k = "union"   -> \E i \in DOMAIN T.alts : AcceptsNum(ctx, T.alts[i], w)
    [] T.k = "lit"     -> w = "int" /\ \E i \in DOMAIN T.vals : T.vals[i].k = "int"
    [] T.k = "enum"    -> w = "int" /\ \E i \in DOMAIN ctx.En[T.cls] : ctx.En[T.cls][i][2].k = "int"
    [] OTHER           -> FALSE

RECURSIVE Ambig(_, _, _)
Ambig(ctx, T, seen) ==
  CASE T.k = "union" ->
         \/ \E i, j \in DOMAIN T.alts : i < j /\ AcceptsNum(ctx, T.alts[i], "float") /\ AcceptsNum(ctx, T.alts[j], "int")
         \/ \E i \in DOMAIN T.alts : Ambig(ctx, T.alts[i], seen)
    [] T.k \in {"newtype"} -> Ambig(ctx, T.sup, seen)
    [] T.k = "annot"   -> Ambig(ctx, T.t, seen)
    [] T.k = "coll"    -> Ambig(ctx, T.e, seen)
    [] T.k = "tuple"   -> \E i \in DOMAIN T.es : Ambig(ctx, T.es[i], seen)
    [] T.k = "map"     -> Ambig(ctx, T.kt, seen) \/ Ambig(ctx, T.vt, seen)
    [] T.k = "obj"     -> T.cls \notin seen /\
                          \E i \in DOMAIN ctx.C[T.cls].fields : Ambig(ctx, ctx.C[T.cls].fields[i].type, seen \cup {T.cls})
    [] T.k = "dunion"  -> \E i \in DOMAIN T.alts : Ambig(ctx, T.alts[i], seen)
    [] OTHER           -> FALSE

\* int n and float n.0 identified
RECURSIVE NumNorm(_)
NumNorm(v) ==
  CASE v.k = "int"                -> DFloat(2 * v.n)
    [] v.k \in {"list", "tuple"}  -> [k |-> v.k, a |-> [j \in DOMAIN v.a |-> NumNorm(v.a[j])]]
    [] v.k \in {"set", "fset"}    -> [k |-> v.k, e |-> {NumNorm(x) : x \in v.e}]
    [] v.k = "dict" -> VDict([j \in DOMAIN v.o |-> <<NumNorm(v.o[j][1]), NumNorm(v.o[j][2])>>])
    [] v.k = "inst" -> VInst(v.cls, [j \in DOMAIN v.f |-> <<v.f[j][1], NumNorm(v.f[j][2])>>])
    [] OTHER        -> v

\* Python dict equality ignores insertion order: dict images are compared as sets of items
\* (key order of *serialized* objects is the business of C16, not of the typed image)
RECURSIVE DictNorm(_)
DictNorm(v) ==
  CASE v.k \in {"list", "tuple"}  -> [k |-> v.k, a |-> [j \in DOMAIN v.a |-> DictNorm(v.a[j])]]
    [] v.k \in {"set", "fset"}    -> [k |-> v.k, e |-> {DictNorm(x) : x \in v.e}]
    [] v.k = "dict" -> [k |-> "dict", items |-> {<<DictNorm(v.o[j][1]), DictNorm(v.o[j][2])>> : j \in DOMAIN v.o}]
    [] v.k = "inst" -> VInst(v.cls, [j \in DOMAIN v.f |-> <<v.f[j][1], DictNorm(v.f[j][2])>>])
    [] OTHER        -> v

ImageEq(ctx, T, expected, actual) ==
  IF Ambig(ctx, T, {}) THEN DictNorm(NumNorm(expected)) = DictNorm(NumNorm(actual))
  ELSE DictNorm(expected) = DictNorm(actual)

\* top-level entry: per-call schema constraints are merged at the root
RDeserialize(ctx, T, d) == RD(ctx, T, <<>>, d)
Conforms(ctx, T, d)     == RDeserialize(ctx, T, d).ok
=============================================================================
