------------------------------- MODULE Dialects ------------------------------
(***************************************************************************)
(* C18 -- schema dialect conversion (apischema/json_schema/versions.py).   *)
(*                                                                         *)
(*   Convert(S, V)  Layer M: to_json_schema_2019_09 / to_json_schema_7 /   *)
(*                  to_open_api_3_0 applied at EVERY nesting level (the    *)
(*                  self-referential LazyConversion of JsonSchemaVersion)  *)
(*   ValidatesV(V, S, d)  the validation rules of dialect V for the        *)
(*                  keywords Convert can produce                           *)
(*   Vocabulary(V)  the keywords dialect V knows                           *)
(* Obligations: DialectEquivalent (same accepted instances, up to what     *)
(* OpenAPI 3.0 drops) and VocabularyOnly (at every nesting level).         *)
(* V \in {"2020-12", "2019-09", "draft-07", "oas30", "oas31"}.             *)
(* Array-form items is written <<"items[]", Seq(schema)>>.                 *)
(***************************************************************************)
EXTENDS JsonSchema

Versions == {"2020-12", "2019-09", "draft-07", "oas30", "oas31"}

\* keywords whose value is a schema / a sequence of schemas / a sequence of <<name, schema>>
SubSchemaKW  == {"items", "additionalProperties", "additionalItems", "unevaluatedProperties"}
SubSeqKW     == {"prefixItems", "items[]", "anyOf", "oneOf", "allOf"}
SubPairsKW   == {"properties", "patternProperties"}

RECURSIVE Convert(_, _)
ConvertLevel(S, V) ==
  LET s1 == \* to_json_schema_2019_09: prefixItems -> array-form items, items -> additionalItems
            IF V \in {"2019-09", "draft-07", "oas30"} /\ HasKW(S, "prefixItems")
            THEN LET noItems == DelKW(DelKW(S, "prefixItems"), "items")
                     withAdd == IF HasKW(S, "items") THEN Append(noItems, <<"additionalItems", KW(S, "items")>>) ELSE noItems
                 IN Append(withAdd, <<"items[]", KW(S, "prefixItems")>>)
            ELSE S
      s2 == \* to_json_schema_7: dependentRequired -> dependencies
            IF V = "draft-07" /\ HasKW(s1, "dependentRequired")
            THEN Append(DelKW(s1, "dependentRequired"), <<"dependencies", KW(s1, "dependentRequired")>>) ELSE s1
      s3 == \* to_open_api_3_0: unsupported keywords dropped
            IF V = "oas30" THEN SelectSeq(s2, LAMBDA p : p[1] \notin {"dependentRequired", "unevaluatedProperties", "additionalItems"})
            ELSE s2
      s4 == \* to_open_api_3_0: null type -> nullable; several types -> anyOf; const -> enum
            IF V # "oas30" THEN s3
            ELSE LET t  == IF HasKW(s3, "type") THEN KW(s3, "type") ELSE {}
                     a1 == IF "null" \in t THEN Append(DelKW(s3, "type"), <<"nullable", TRUE>>) ELSE DelKW(s3, "type")
                     t2 == t \ {"null"}
                     \* only a LIST of types is rewritten; a single type (even "null") is left alone
                     a2 == IF ~HasKW(s3, "type") \/ Cardinality(t) = 1 THEN s3
                           ELSE IF Cardinality(t2) > 1
                             THEN Append(a1, <<"anyOf", [i \in DOMAIN SetToSeq(t2) |-> << <<"type", {SetToSeq(t2)[i]}>> >>]>>)
                           ELSE IF Cardinality(t2) = 1 THEN Append(a1, <<"type", t2>>)
                           ELSE a1
                     a3 == IF HasKW(a2, "anyOf") /\ \E i \in DOMAIN KW(a2, "anyOf") : IsNullS(KW(a2, "anyOf")[i])
                           THEN SetKW(SetKW(a2, "anyOf", SelectSeq(KW(a2, "anyOf"), LAMBDA x : ~IsNullS(x))), "nullable", TRUE)
                           ELSE a2
                 IN IF HasKW(a3, "const") THEN Append(DelKW(a3, "const"), <<"enum", <<KW(a3, "const")>> >>) ELSE a3
  IN s4

Convert(S, V) ==
  LET top == ConvertLevel(S, V) IN
  [i \in DOMAIN top |->
     LET kw == top[i][1]  val == top[i][2] IN
     IF kw \in SubSchemaKW THEN <<kw, Convert(val, V)>>
     ELSE IF kw \in SubSeqKW THEN <<kw, [j \in DOMAIN val |-> Convert(val[j], V)]>>
     ELSE IF kw \in SubPairsKW THEN <<kw, [j \in DOMAIN val |-> <<val[j][1], Convert(val[j][2], V)>>]>>
     ELSE top[i]]

\* ---- vocabulary
Common == {"type", "enum", "minimum", "maximum", "exclusiveMinimum", "exclusiveMaximum", "multipleOf", "minLength",
           "maxLength", "pattern", "items", "minItems", "maxItems", "uniqueItems", "uniqueItems(set)", "properties",
           "required", "additionalProperties", "patternProperties", "minProperties", "maxProperties", "anyOf",
           "oneOf", "allOf", "$ref", "false", "discriminator"}
Vocabulary(V) ==
  CASE V \in {"2020-12", "oas31"} -> Common \cup {"const", "prefixItems", "dependentRequired", "unevaluatedProperties"}
    [] V = "2019-09"  -> Common \cup {"const", "items[]", "additionalItems", "dependentRequired", "unevaluatedProperties"}
    [] V = "draft-07" -> Common \cup {"const", "items[]", "additionalItems", "dependencies"}
    [] V = "oas30"    -> (Common \cup {"nullable", "items[]"}) \ {"patternProperties"}

RECURSIVE BadKeywords(_, _)
BadKeywords(S, V) ==
  UNION {({S[i][1]} \ Vocabulary(V))
         \cup (IF S[i][1] \in SubSchemaKW THEN BadKeywords(S[i][2], V) ELSE {})
         \cup (IF S[i][1] \in SubSeqKW THEN UNION {BadKeywords(S[i][2][j], V) : j \in DOMAIN S[i][2]} ELSE {})
         \cup (IF S[i][1] \in SubPairsKW THEN UNION {BadKeywords(S[i][2][j][2], V) : j \in DOMAIN S[i][2]} ELSE {})
         : i \in DOMAIN S}
RECURSIVE KeywordsOK(_, _)
KeywordsOK(S, V) ==
  \A i \in DOMAIN S :
     /\ S[i][1] \in Vocabulary(V)
     /\ S[i][1] \in SubSchemaKW => KeywordsOK(S[i][2], V)
     /\ S[i][1] \in SubSeqKW => \A j \in DOMAIN S[i][2] : KeywordsOK(S[i][2][j], V)
     /\ S[i][1] \in SubPairsKW => \A j \in DOMAIN S[i][2] : KeywordsOK(S[i][2][j][2], V)

\* ---- validation under dialect V: the converted keywords get their V semantics, the others
\* are validated as in JsonSchema!Validates
RECURSIVE ValidatesV(_, _, _, _, _)
ValidatesV(ctx, dir, V, S, d) ==
  LET nullable == HasKW(S, "nullable") /\ d.k = "null" IN
  \/ nullable
  \/ /\ Validates(ctx, dir,
                  SelectSeq(S, LAMBDA p : p[1] \notin (SubSchemaKW \cup SubSeqKW \cup SubPairsKW \cup {"dependencies", "nullable", "$ref"})), d)
     /\ HasKW(S, "$ref") => ValidatesV(ctx, dir, V, Convert(ObjSchema(ctx, dir, KW(S, "$ref"), {KW(S, "$ref")}), V), d)
     /\ d.k = "arr" =>
          LET np == IF HasKW(S, "items[]") THEN Len(KW(S, "items[]"))
                    ELSE IF HasKW(S, "prefixItems") THEN Len(KW(S, "prefixItems")) ELSE 0
              pre == IF HasKW(S, "items[]") THEN KW(S, "items[]") ELSE IF HasKW(S, "prefixItems") THEN KW(S, "prefixItems") ELSE <<>>
          IN /\ \A i \in DOMAIN d.a : i <= np => ValidatesV(ctx, dir, V, pre[i], d.a[i])
             /\ HasKW(S, "additionalItems") => \A i \in DOMAIN d.a : i > np => ValidatesV(ctx, dir, V, KW(S, "additionalItems"), d.a[i])
             /\ HasKW(S, "items") => \A i \in DOMAIN d.a : i > np => ValidatesV(ctx, dir, V, KW(S, "items"), d.a[i])
     /\ d.k = "obj" =>
          /\ HasKW(S, "dependencies") =>
               \A i \in DOMAIN KW(S, "dependencies") :
                  KW(S, "dependencies")[i][1] \in Keys(d.o) => KW(S, "dependencies")[i][2] \subseteq Keys(d.o)
          /\ LET props == IF HasKW(S, "properties") THEN KW(S, "properties") ELSE <<>>
                 pats  == IF HasKW(S, "patternProperties") THEN KW(S, "patternProperties") ELSE <<>> IN
             \A i \in DOMAIN d.o :
               LET key == d.o[i][1]  val == d.o[i][2]
                   byPat == {j \in DOMAIN pats : Matches(ctx, key, pats[j][1])} IN
               /\ HasKey(props, key) => ValidatesV(ctx, dir, V, Get(props, key), val)
               /\ \A j \in byPat : ValidatesV(ctx, dir, V, pats[j][2], val)
               /\ (~HasKey(props, key) /\ byPat = {} /\ HasKW(S, "additionalProperties")) =>
                     ValidatesV(ctx, dir, V, KW(S, "additionalProperties"), val)
          \* a keyword outside the dialect's vocabulary is ignored by its validators
          /\ (HasKW(S, "unevaluatedProperties") /\ "unevaluatedProperties" \in Vocabulary(V)) =>
                \A i \in DOMAIN d.o : Evaluated(ctx, dir, S, d.o[i][1])
     /\ HasKW(S, "anyOf") => \E i \in DOMAIN KW(S, "anyOf") : ValidatesV(ctx, dir, V, KW(S, "anyOf")[i], d)
     /\ HasKW(S, "oneOf") => Cardinality({i \in DOMAIN KW(S, "oneOf") : ValidatesV(ctx, dir, V, KW(S, "oneOf")[i], d)}) = 1
     /\ HasKW(S, "allOf") => \A i \in DOMAIN KW(S, "allOf") : ValidatesV(ctx, dir, V, KW(S, "allOf")[i], d)

\* does the 2020-12 schema use a keyword OpenAPI 3.0 drops
RECURSIVE UsesDropped(_)
UsesDropped(S) ==
  \E i \in DOMAIN S :
     \/ S[i][1] \in {"dependentRequired", "unevaluatedProperties", "prefixItems", "patternProperties"}
     \/ S[i][1] \in SubSchemaKW /\ UsesDropped(S[i][2])
     \/ S[i][1] \in SubSeqKW /\ \E j \in DOMAIN S[i][2] : UsesDropped(S[i][2][j])
     \/ S[i][1] \in SubPairsKW /\ \E j \in DOMAIN S[i][2] : UsesDropped(S[i][2][j][2])
=============================================================================
