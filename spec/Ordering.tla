------------------------------- MODULE Ordering ------------------------------
(***************************************************************************)
(* C16 -- field order.  Elements (fields, then serialized methods) are     *)
(* records [name, ord] with                                                *)
(*   ord = [k : "none" | "val" | "after" | "before", n : Int, x : name]   *)
(* (after class-level order(...) overriding has been applied, see          *)
(* Effective).  Two layers:                                                *)
(*   Layer M  SortByOrder: literal transcription of                         *)
(*            apischema.ordering.sort_by_order (groups / after / before     *)
(*            maps, recursive add_to_result)                                *)
(*   Layer R  the documented rules, as laws on the result:                  *)
(*            Permutation, RootsSorted, BlocksContiguous, Attached          *)
(* Well-formed specs: every after/before target is an element of the view  *)
(* and attachments are acyclic.  For ill-formed specs the property's       *)
(* "never loses or duplicates" still applies; the pinned tree DROPS the     *)
(* orphans (known finding F-order-orphans, deviation "droporphans").        *)
(***************************************************************************)
EXTENDS Naturals, Integers, Sequences, FiniteSets, TLC

Names(elts)  == {elts[i].name : i \in DOMAIN elts}
IndexOf(elts, n) == CHOOSE i \in DOMAIN elts : elts[i].name = n
Kind(e)   == e.ord.k
Target(e) == e.ord.x
ONone      == [k |-> "none", n |-> 0, x |-> ""]
OVal(n)    == [k |-> "val", n |-> n, x |-> ""]
OAfter(x)  == [k |-> "after", n |-> 0, x |-> x]
OBefore(x) == [k |-> "before", n |-> 0, x |-> x]

\* class-level overriding: mappings met along the MRO from the base-most class to the class
\* itself, later ones win; an overridden element takes the overriding ordering
Effective(elts, overrides) ==
  [i \in DOMAIN elts |->
     LET hits == {j \in DOMAIN overrides : \E p \in {overrides[j][k] : k \in DOMAIN overrides[j]} : p[1] = elts[i].name} IN
     IF hits = {} THEN elts[i]
     ELSE LET j == CHOOSE jj \in hits : \A k \in hits : k <= jj
              p == CHOOSE q \in {overrides[j][k] : k \in DOMAIN overrides[j]} : q[1] = elts[i].name
          IN [elts[i] EXCEPT !.ord = p[2]]]

\* ---- well-formedness
Attached(elts) == {i \in DOMAIN elts : Kind(elts[i]) \in {"after", "before"}}
Dangling(elts) == {i \in Attached(elts) : Target(elts[i]) \notin Names(elts)}
RECURSIVE ReachesRoot(_, _, _)
ReachesRoot(elts, i, fuel) ==
  IF Kind(elts[i]) \notin {"after", "before"} THEN TRUE
  ELSE IF fuel = 0 \/ Target(elts[i]) \notin Names(elts) THEN FALSE
  ELSE ReachesRoot(elts, IndexOf(elts, Target(elts[i])), fuel - 1)
WellFormed(elts) == \A i \in DOMAIN elts : ReachesRoot(elts, i, Len(elts))

---------------------------------------------------------------------------
\* ---- Layer M: sort_by_order as written
GroupVal(e) == IF Kind(e) = "val" THEN e.ord.n ELSE 0
Roots(elts) == {i \in DOMAIN elts : Kind(elts[i]) \in {"none", "val"}}
AfterOf(elts, n)  == SelectSeq([i \in DOMAIN elts |-> i], LAMBDA i : Kind(elts[i]) = "after" /\ Target(elts[i]) = n)
BeforeOf(elts, n) == SelectSeq([i \in DOMAIN elts |-> i], LAMBDA i : Kind(elts[i]) = "before" /\ Target(elts[i]) = n)

RECURSIVE AddToResult(_, _, _)
RECURSIVE AddAll(_, _, _)
\* add_to_result(elt): before-attached elements, the element, after-attached elements
AddToResult(elts, i, fuel) ==
  IF fuel = 0 THEN <<>>      \* unreachable for acyclic attachments; cyclic ones never start here
  ELSE AddAll(elts, BeforeOf(elts, elts[i].name), fuel - 1) \o <<i>> \o AddAll(elts, AfterOf(elts, elts[i].name), fuel - 1)
AddAll(elts, is, fuel) == IF is = <<>> THEN <<>> ELSE AddToResult(elts, Head(is), fuel) \o AddAll(elts, Tail(is), fuel)

\* sorted(groups): ascending group value; within a group, declaration order
RECURSIVE SortedRoots(_, _)
SortedRoots(elts, remaining) ==
  IF remaining = {} THEN <<>>
  ELSE LET m == CHOOSE i \in remaining : \A j \in remaining :
                   GroupVal(elts[i]) < GroupVal(elts[j]) \/ (GroupVal(elts[i]) = GroupVal(elts[j]) /\ i <= j)
       IN <<m>> \o SortedRoots(elts, remaining \ {m})

SortByOrderIdx(elts) == AddAll(elts, SortedRoots(elts, Roots(elts)), Len(elts) + 1)
SortByOrder(elts)    == [k \in DOMAIN SortByOrderIdx(elts) |-> elts[SortByOrderIdx(elts)[k]].name]

---------------------------------------------------------------------------
\* ---- Layer R: the documented rules as laws on a result `res` (sequence of indices)
Pos(res, i) == CHOOSE k \in DOMAIN res : res[k] = i
Permutation(elts, res) == Len(res) = Len(elts) /\ {res[k] : k \in DOMAIN res} = DOMAIN elts

\* the block of an element: itself and everything transitively attached to it
RECURSIVE Block(_, _, _)
Block(elts, i, fuel) ==
  IF fuel = 0 THEN {i}
  ELSE {i} \cup UNION {Block(elts, j, fuel - 1) :
                         j \in {jj \in Attached(elts) : Target(elts[jj]) = elts[i].name}}

\* ascending order value (0 by default), declaration order within a value
RootsSorted(elts, res) ==
  \A i, j \in Roots(elts) :
     (GroupVal(elts[i]) < GroupVal(elts[j]) \/ (GroupVal(elts[i]) = GroupVal(elts[j]) /\ i < j))
        => Pos(res, i) < Pos(res, j)
\* an element and what is attached to it (with their own attached elements) stay together
BlocksContiguous(elts, res) ==
  \A i \in DOMAIN elts :
     LET b == Block(elts, i, Len(elts))  ps == {Pos(res, j) : j \in b} IN
     \A p \in ps, q \in ps : \A k \in p..q : k \in ps
\* after=x elements come after x, before=x elements before x; among the elements attached to
\* the same side of x, declaration order
AttachedSides(elts, res) ==
  /\ \A i \in Attached(elts) :
        LET x == IndexOf(elts, Target(elts[i])) IN
        IF Kind(elts[i]) = "after" THEN Pos(res, x) < Pos(res, i) ELSE Pos(res, i) < Pos(res, x)
  /\ \A i, j \in Attached(elts) :
        (i < j /\ Kind(elts[i]) = Kind(elts[j]) /\ Target(elts[i]) = Target(elts[j])) => Pos(res, i) < Pos(res, j)

RulesHold(elts, res) ==
  Permutation(elts, res) /\ RootsSorted(elts, res) /\ BlocksContiguous(elts, res) /\ AttachedSides(elts, res)
=============================================================================
