------------------------------ MODULE RecCheck ------------------------------
(***************************************************************************)
(* C20 -- concurrent first use: N threads run apischema.recursion's        *)
(* is_recursive / RecursiveChecker.visit on a shared recursion cache.      *)
(*                                                                         *)
(* One action per access to the shared cache (Python dict operations are   *)
(* atomic under the GIL; everything between two accesses touches only the  *)
(* checker's own fields and is folded into the next access by Advance):    *)
(*                                                                         *)
(*   Acquire(t)   `with _recursion_lock:`         (design with UseLock)     *)
(*   Check(t)     `rec_key not in cache`          (is_recursive)            *)
(*   Enter(t)     `self._cache.get(rec_key)`      (RecursiveChecker.visit)  *)
(*   WriteT(t,k)  `self._cache[key] = True`       one step PER key of the   *)
(*                                                non-atomic write loop     *)
(*   AssertR(t)   `assert self._cache[rec_key]`                             *)
(*   WriteF(t)    `self._cache[rec_key] = False`                            *)
(*   Return(t)    `return cache[rec_key]`                                   *)
(*   Release(t)   leaving the `with` block                                  *)
(*                                                                         *)
(* The type graph is a constant: Succ[n] is the sequence of keys visited   *)
(* from n, in visit order (fields of an object, alternatives of a union,   *)
(* element of a collection; primitives are leaves but ARE keys).           *)
(* UseLock = FALSE is the design of the pinned tree (deviation F17: the    *)
(* analyses interleave); UseLock = TRUE is the repaired design.            *)
(***************************************************************************)
EXTENDS Naturals, Sequences, FiniteSets, TLC

CONSTANTS Nodes,        \* set of keys
          Succ,         \* [Nodes -> Seq(Nodes)]
          Threads,      \* set of thread ids
          Prog,         \* [Threads -> Seq(Nodes)]: the successive is_recursive(root) calls
          UseLock,      \* BOOLEAN
          Deviations    \* named deviations of the pinned tree kept for negative checks

VARIABLES cache,        \* [Nodes -> {"none","T","F"}]   the shared recursion cache
          lock,         \* holder of the analysis lock, or "free"
          th,           \* [Threads -> local record]
          last          \* history: the access just performed (hidden by VIEW in checking configs)

vars == <<cache, lock, th, last>>

\* ---- ground truth: k is recursive iff it lies on a cycle
RECURSIVE ReachFrom(_, _)
ReachFrom(S, seen) ==
  LET next == UNION {{Succ[n][i] : i \in DOMAIN Succ[n]} : n \in S} \ seen
  IN IF next = {} THEN seen ELSE ReachFrom(next, seen \cup next)
Reach(n)   == ReachFrom({n}, {})            \* nodes reachable by >= 1 edge
TrueRec(n) == n \in Reach(n)

\* ---- thread-local state
\* pc: "idle" | "acquire" | "check" | "enter" | "writeT" | "assert" | "writeF"
\*     | "release" | "return"
\* stack: Seq([key, ci])  the guard (keys being visited) with the next child index
\* cur:   the key whose visit() is about to read the cache (pc = "enter")
\* rec:   [Nodes -> SUBSET Nodes]  self._recursive (empty set = absent)
\* allrec: self._all_recursive;  pend: keys still to be written True;  wkey: key being exited
\* pi: index in Prog[t] of the current call; res: results so far
InitLocal == [pc |-> "idle", stack |-> <<>>, cur |-> CHOOSE n \in Nodes : TRUE,
              rec |-> [n \in Nodes |-> {}], allrec |-> {}, pend |-> {}, wkey |-> CHOOSE n \in Nodes : TRUE,
              pi |-> 0, res |-> <<>>, holds |-> FALSE]

GuardKeys(l) == {l.stack[i].key : i \in DOMAIN l.stack}
GuardIndex(l, k) == CHOOSE i \in DOMAIN l.stack : l.stack[i].key = k

\* Local computation up to the next shared access.  `l` has just finished the visit of one
\* key (returned from visit()) or has just pushed a frame.
RECURSIVE Advance(_)
Advance(l) ==
  IF l.stack = <<>> THEN [l EXCEPT !.pc = "return"]
  ELSE LET top == l.stack[Len(l.stack)] IN
       IF top.ci <= Len(Succ[top.key])
         THEN \* visit the next child: its first statement reads the shared cache
              [l EXCEPT !.cur = Succ[top.key][top.ci],
                        !.stack[Len(l.stack)].ci = top.ci + 1,
                        !.pc = "enter"]
         ELSE \* exit of top.key: pop, then decide what to write
              LET popped == [l EXCEPT !.stack = SubSeq(l.stack, 1, Len(l.stack) - 1), !.wkey = top.key] IN
              IF l.rec[top.key] # {} THEN [popped EXCEPT !.pend = l.rec[top.key], !.pc = "writeT"]
              ELSE IF top.key \notin l.allrec THEN [popped EXCEPT !.pc = "writeF"]
              ELSE Advance(popped)

Root(t) == Prog[t][th[t].pi]

Init == /\ cache = [n \in Nodes |-> "none"]
        /\ lock = "free"
        /\ th = [t \in Threads |-> InitLocal]
        /\ last = [t |-> "none", op |-> "init", key |-> "", val |-> ""]

Log(t, op, k, v) == last' = [t |-> t, op |-> op, key |-> k, val |-> v]

\* is_recursive(root) called (the next call of the thread's program): no shared access yet
Start(t) == /\ th[t].pc = "idle" /\ th[t].pi < Len(Prog[t])
            /\ th' = [th EXCEPT ![t].pc = IF UseLock THEN "acquire" ELSE "check", ![t].pi = @ + 1]
            /\ UNCHANGED <<cache, lock>> /\ Log(t, "call", Prog[t][th[t].pi + 1], "")

FreshChecker(l, root) ==
  [l EXCEPT !.stack = <<>>, !.rec = [n \in Nodes |-> {}], !.allrec = {}, !.pend = {}, !.cur = root, !.pc = "enter"]

\* `with _recursion_lock:` (repaired design: the whole body of is_recursive runs under it)
Acquire(t) == /\ th[t].pc = "acquire" /\ lock = "free"
              /\ lock' = t
              /\ th' = [th EXCEPT ![t].pc = "check", ![t].holds = TRUE]
              /\ UNCHANGED cache /\ Log(t, "acquire", "", "")

\* `if rec_key not in cache`
Check(t) == /\ th[t].pc = "check"
            /\ IF cache[Root(t)] # "none" THEN th' = [th EXCEPT ![t].pc = "return"]
               ELSE th' = [th EXCEPT ![t] = FreshChecker(@, Root(t))]
            /\ UNCHANGED <<cache, lock>> /\ Log(t, "contains", Root(t), IF cache[Root(t)] # "none" THEN "in" ELSE "out")

\* RecursiveChecker.visit(cur): `if rec_key in self._cache: pass / elif in guard / else descend`
Enter(t) ==
  /\ th[t].pc = "enter"
  /\ LET l == th[t]  k == l.cur IN
     th' = [th EXCEPT ![t] =
       \* Only a key known NOT to be recursive can be skipped: it cannot reach back into the
       \* guard.  Skipping a key cached as recursive (deviation "skiptrue", the pinned tree) loses
       \* the cycles that go through it: a node whose only way back to the guard crosses an
       \* already analysed recursive key is then written False -- even with a single thread.
       IF cache[k] = "F" \/ (cache[k] = "T" /\ "skiptrue" \in Deviations) THEN Advance(l)
       ELSE IF k \in GuardKeys(l) THEN
              LET cyc == {l.stack[i].key : i \in GuardIndex(l, k)..Len(l.stack)} IN
              Advance([l EXCEPT !.rec[k] = @ \cup cyc, !.allrec = @ \cup cyc])
       ELSE Advance([l EXCEPT !.stack = Append(@, [key |-> k, ci |-> 1])])]
  /\ UNCHANGED <<cache, lock>>
  /\ Log(t, "lookup", th[t].cur, cache[th[t].cur])

\* `for key in self._recursive[rec_key]: self._cache[key] = True` -- one key per step, any order
WriteT(t, k) ==
  /\ th[t].pc = "writeT" /\ k \in th[t].pend
  /\ cache' = [cache EXCEPT ![k] = "T"]
  /\ th' = [th EXCEPT ![t].pend = @ \ {k}, ![t].pc = IF th[t].pend = {k} THEN "assert" ELSE "writeT"]
  /\ UNCHANGED lock /\ Log(t, "set", k, "T")

\* `assert self._cache[rec_key]`
AssertR(t) ==
  /\ th[t].pc = "assert"
  /\ IF cache[th[t].wkey] = "T" THEN th' = [th EXCEPT ![t] = Advance(@)]
     ELSE th' = [th EXCEPT ![t].pc = "return", ![t].stack = <<>>, ![t].pend = {"AssertionError"}]
  /\ UNCHANGED <<cache, lock>> /\ Log(t, "get", th[t].wkey, cache[th[t].wkey])

\* `elif rec_key not in self._all_recursive: self._cache[rec_key] = False`
WriteF(t) ==
  /\ th[t].pc = "writeF"
  /\ cache' = [cache EXCEPT ![th[t].wkey] = "F"]
  /\ th' = [th EXCEPT ![t] = Advance(@)]
  /\ UNCHANGED lock /\ Log(t, "set", th[t].wkey, "F")

\* `return cache[rec_key]`
Return(t) ==
  /\ th[t].pc = "return"
  /\ LET r == IF th[t].pend = {"AssertionError"} THEN "AssertionError"
              ELSE IF cache[Root(t)] = "none" THEN "KeyError" ELSE cache[Root(t)] IN
     th' = [th EXCEPT ![t].res = Append(@, r), ![t].pc = IF th[t].holds THEN "release" ELSE "idle", ![t].pend = {}]
  /\ UNCHANGED <<cache, lock>> /\ Log(t, "get", Root(t), cache[Root(t)])

\* leaving the `with _recursion_lock:` block
Release(t) == /\ th[t].pc = "release" /\ lock = t
              /\ lock' = "free"
              /\ th' = [th EXCEPT ![t].pc = "idle", ![t].holds = FALSE]
              /\ UNCHANGED cache /\ Log(t, "release", "", "")

Step(t) == \/ Start(t) \/ Acquire(t) \/ Check(t) \/ Enter(t)
           \/ (\E k \in Nodes : WriteT(t, k)) \/ AssertR(t) \/ WriteF(t) \/ Release(t) \/ Return(t)

Done == \A t \in Threads : th[t].pc = "idle" /\ th[t].pi = Len(Prog[t])
Next == (\E t \in Threads : Step(t)) \/ (Done /\ UNCHANGED vars)

Spec     == Init /\ [][Next]_vars
FairSpec == Spec /\ \A t \in Threads : WF_vars(Step(t))

View == <<cache, lock, th>>

---------------------------------------------------------------------------
\* A wrong bit is observable by any later reader: it must never be in the cache.
CacheSound  == \A n \in Nodes : cache[n] # "none" => (cache[n] = "T") = TrueRec(n)
\* What is_recursive returns (and the lru cache then memoises)
ResultSound == \A t \in Threads : \A i \in DOMAIN th[t].res :
                  th[t].res[i] = (IF TrueRec(Prog[t][i]) THEN "T" ELSE "F")
\* mutual exclusion of the analyses in the repaired design
OneAnalyst  == UseLock => Cardinality({t \in Threads : th[t].pc \in {"check", "enter", "writeT", "assert", "writeF", "return"}}) <= 1
\* every call terminates (checked under FairSpec)
Termination == <>Done
=============================================================================
