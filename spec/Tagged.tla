------------------------------- MODULE Tagged -------------------------------
(***************************************************************************)
(* C13, last clause -- "a TaggedUnion accepts exactly one tag".            *)
(*                                                                         *)
(* A TaggedUnion class is a sequence of tags <<name, type>>.  Layer R is   *)
(* the documented rule: a datum is accepted iff it is an object with       *)
(* exactly one property, that property is a tag, and its value conforms to *)
(* the tag's type (DataModel!RD); the value is TU(tag = image).  Layer M   *)
(* follows the code: tagged_unions.py turns the class into a dataclass     *)
(* whose fields are all `Union[T, UndefinedType] = Undefined` under        *)
(* schema(min_props=1, max_props=1); ObjectMethod counts the properties of *)
(* the RAW datum, routes the known ones to their fields, reports the       *)
(* others as unexpected unless additional properties are allowed, and      *)
(* hands the deserialized fields to TaggedUnion.__init__, which raises     *)
(* ValueError unless it receives exactly one -- deviation "ctorvalueerror" *)
(* (the pinned tree): that ValueError escapes when the only property is an *)
(* unknown one let through by additional_properties, or a tag whose invalid  *)
(* value fell back to its default under fall_back_on_default.              *)
(***************************************************************************)
EXTENDS DataModel

\* the external name of a tag is its name under the aliaser in force (C11): that is the property read and written
TKeys(ctx, tags) == {Ali(ctx, tags[i][1]) : i \in DOMAIN tags}
TIdx(ctx, tags, k) == CHOOSE i \in DOMAIN tags : Ali(ctx, tags[i][1]) = k
TTypeOf(ctx, tags, k) == tags[TIdx(ctx, tags, k)][2]
TName(ctx, tags, k) == tags[TIdx(ctx, tags, k)][1]
TVal(tag, v) == [k |-> "tagged", tag |-> tag, v |-> v]

\* ---- Layer R
TaggedR(ctx, tags, d) ==
  IF d.k # "obj" THEN Bad(Err("type:object"))
  ELSE LET keys == Keys(d.o) IN
       IF Cardinality(keys) = 1 /\ keys \subseteq TKeys(ctx, tags)
       THEN LET key == CHOOSE x \in keys : TRUE
                r   == RD(ctx, TTypeOf(ctx, tags, key), <<>>, Get(d.o, key)) IN
            IF IsUnspec(r) THEN Unspecified
            ELSE IF r.ok THEN Ok(TVal(TName(ctx, tags, key), r.v)) ELSE BadX(Under(key, r.e), Under(key, r.x))
       ELSE Bad({<< <<>>, "ANY" >>})          \* rejected; which violations are listed is Layer M's business

\* ---- Layer M: [kind : "ok" | "verr" | "exc"]
TaggedM(ctx, tags, d, dev) ==
  IF d.k # "obj" THEN [kind |-> "verr", r |-> Bad(Err("type:object"))]
  ELSE LET keys    == Keys(d.o)
           n       == Cardinality(keys)
           known   == keys \cap TKeys(ctx, tags)
           res(key)  == RD(ctx, TTypeOf(ctx, tags, key), <<>>, Get(d.o, key))
           own     == (IF n < 1 THEN Err("minProperties") ELSE {}) \cup (IF n > 1 THEN Err("maxProperties") ELSE {})
           unexp   == IF ctx.O.addl THEN {} ELSE UNION {Under(key, Err("unexpected")) : key \in keys \ TKeys(ctx, tags)}
           \* under fall_back_on_default a failing tag falls back to its default, Undefined: it is simply not given
           ferr    == IF ctx.O.fbd THEN {} ELSE UNION {IF res(key).ok THEN {} ELSE Under(key, res(key).e) : key \in known}
           ferrx   == IF ctx.O.fbd THEN {} ELSE UNION {Under(key, XOf(res(key))) : key \in known}
           given   == IF ctx.O.fbd THEN {key \in known : res(key).ok} ELSE known
           all     == own \cup unexp \cup ferr
       IN IF all # {} THEN [kind |-> "verr", r |-> BadX(all, ferrx)]
          ELSE IF \E key \in known : IsUnspec(res(key)) THEN [kind |-> "ok", r |-> Unspecified]
          \* the constructor receives the deserialized known properties
          ELSE IF Cardinality(given) = 1
               THEN LET key == CHOOSE x \in given : TRUE IN [kind |-> "ok", r |-> Ok(TVal(TName(ctx, tags, key), res(key).v))]
          ELSE IF "ctorvalueerror" \in dev THEN [kind |-> "exc", r |-> Bad({})]
          ELSE [kind |-> "verr", r |-> Bad({<< <<>>, "ANY" >>})]

\* serialization: the one defined tag, under its external name
TaggedSer(ctx, tags, v, SerOp(_, _, _)) ==
  LET T == tags[CHOOSE i \in DOMAIN tags : tags[i][1] = v.tag][2] IN DObj(<< <<Ali(ctx, v.tag), SerOp(ctx, T, v.v)>> >>)
=============================================================================
