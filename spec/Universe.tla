------------------------------ MODULE Universe ------------------------------
(***************************************************************************)
(* The bounded universes over which TLC decides the invariants and from    *)
(* which the spec -> code replay cases are emitted (DESIGN 5).  Everything *)
(* here is a definition: the enumerated space is part of the specification *)
(* and is the same for TLC's invariants and for the replay in the code.    *)
(***************************************************************************)
EXTENDS DataModel

\* ---- strings and their attributes (checked against Python's re/int/float by
\* harness/universe_check.py: the table below must agree with bridge.str_attrs)
UStrAttr ==
  [s \in {"", "a", "ab", "abc", "b", "1", "2", "07", "1.5", "true", "YES", "no", "x", "zz", "z9",
          "bb", "A", "c", "d", "kind", "0", "-1", "x_y", "3", "4", "6", "7", "ZZ", "R", "r", "q", "Q", "z", "Z", "o", "O", "p", "P", "f", "F"} |->
    CASE s = "1"    -> [int |-> <<"y", 1>>,  float |-> <<"y", 2>>,  boolw |-> "t",    pats |-> <<"pnum">>]
      [] s = "2"    -> [int |-> <<"y", 2>>,  float |-> <<"y", 4>>,  boolw |-> "none", pats |-> <<"pnum">>]
      [] s = "0"    -> [int |-> <<"y", 0>>,  float |-> <<"y", 0>>,  boolw |-> "f",    pats |-> <<"pnum">>]
      [] s = "3"    -> [int |-> <<"y", 3>>,  float |-> <<"y", 6>>,  boolw |-> "none", pats |-> <<"pnum">>]
      [] s = "4"    -> [int |-> <<"y", 4>>,  float |-> <<"y", 8>>,  boolw |-> "none", pats |-> <<"pnum">>]
      [] s = "6"    -> [int |-> <<"y", 6>>,  float |-> <<"y", 12>>, boolw |-> "none", pats |-> <<"pnum">>]
      [] s = "7"    -> [int |-> <<"y", 7>>,  float |-> <<"y", 14>>, boolw |-> "none", pats |-> <<"pnum">>]
      [] s = "-1"   -> [int |-> <<"y", -1>>, float |-> <<"y", -2>>, boolw |-> "none", pats |-> <<>>]
      [] s = "07"   -> [int |-> <<"y", 7>>,  float |-> <<"y", 14>>, boolw |-> "none", pats |-> <<"pnum">>]
      [] s = "1.5"  -> [int |-> <<"n", 0>>,  float |-> <<"y", 3>>,  boolw |-> "none", pats |-> <<>>]
      [] s = "true" -> [int |-> <<"n", 0>>,  float |-> <<"n", 0>>,  boolw |-> "t",    pats |-> <<>>]
      [] s = "YES"  -> [int |-> <<"n", 0>>,  float |-> <<"n", 0>>,  boolw |-> "t",    pats |-> <<>>]
      [] s = "no"   -> [int |-> <<"n", 0>>,  float |-> <<"n", 0>>,  boolw |-> "f",    pats |-> <<>>]
      [] s = "a"    -> [int |-> <<"n", 0>>,  float |-> <<"n", 0>>,  boolw |-> "none", pats |-> <<"pa">>]
      [] s = "ab"   -> [int |-> <<"n", 0>>,  float |-> <<"n", 0>>,  boolw |-> "none", pats |-> <<"pa", "pab">>]
      [] s = "abc"  -> [int |-> <<"n", 0>>,  float |-> <<"n", 0>>,  boolw |-> "none", pats |-> <<"pa", "pab">>]
      [] s = "zz"   -> [int |-> <<"n", 0>>,  float |-> <<"n", 0>>,  boolw |-> "none", pats |-> <<"pz">>]
      [] s = "z9"   -> [int |-> <<"n", 0>>,  float |-> <<"n", 0>>,  boolw |-> "none", pats |-> <<"pz">>]
      [] s = "z"    -> [int |-> <<"n", 0>>,  float |-> <<"n", 0>>,  boolw |-> "none", pats |-> <<"pz">>]
      [] s = "f"    -> [int |-> <<"n", 0>>,  float |-> <<"n", 0>>,  boolw |-> "f",    pats |-> <<>>]
      [] s = "F"    -> [int |-> <<"n", 0>>,  float |-> <<"n", 0>>,  boolw |-> "f",    pats |-> <<>>]
      [] OTHER      -> [int |-> <<"n", 0>>,  float |-> <<"n", 0>>,  boolw |-> "none", pats |-> <<>>]]

TInt   == TPrim("int")
TFloat == TPrim("float")
TStr   == TPrim("str")
TBool  == TPrim("bool")
TNone  == TPrim("none")

F(name, type) ==
  [name |-> name, alias |-> name, type |-> type, dk |-> "req", dv |-> DNull, flat |-> FALSE,
   props |-> "no", pat |-> "", reqmd |-> FALSE, skipd |-> FALSE, skips |-> FALSE, nau |-> FALSE,
   fbd |-> FALSE, kind |-> "normal", cons |-> <<>>, skip_default |-> FALSE, skip_if |-> "", inherited |-> FALSE]
FD(name, type, dv) == [F(name, type) EXCEPT !.dk = "val", !.dv = dv]
Cls(kind, fields)  == [kind |-> kind, fields |-> fields, depreq |-> <<>>, smethods |-> <<>>, postinc |-> "", bases |-> <<>>]
SM(name, al, rtype, rv) == [name |-> name, alias |-> al, rtype |-> rtype, rv |-> rv]
TUndef == TPrim("undef")

UEnums ==
  [EI |-> << <<"ONE", DInt(1)>>, <<"TWO", DInt(2)>> >>,
   ES |-> << <<"A", DStr("a")>>, <<"B", DStr("b")>> >>,
   EM |-> << <<"X", DInt(1)>>, <<"Y", DStr("a")>> >>,
   E1 |-> << <<"ONLY", DInt(0)>> >>]

\* hand-listed class tables: each class exercises one or two object features
UClasses ==
  [P1   |-> Cls("dataclass", << F("a", TInt) >>),
   P2   |-> Cls("dataclass", << F("a", TInt), [FD("b", TStr, DStr("x")) EXCEPT !.alias = "bb"] >>),
   P3   |-> Cls("dataclass", << F("a", TFloat), FD("c", TOpt(TInt), DNull),
                                [FD("d", TColl("list", TInt), VList(<<>>)) EXCEPT !.dk = "fac"] >>),
   RQ   |-> Cls("dataclass", << [FD("a", TInt, DInt(0)) EXCEPT !.reqmd = TRUE], FD("b", TStr, DStr("")) >>),
   FB   |-> Cls("dataclass", << F("b", TStr), [FD("a", TInt, DInt(7)) EXCEPT !.fbd = TRUE] >>),
   SK   |-> Cls("dataclass", << F("a", TInt), [FD("b", TStr, DStr("x")) EXCEPT !.skipd = TRUE],
                                [FD("c", TInt, DInt(3)) EXCEPT !.kind = "ro"] >>),
   NU   |-> Cls("dataclass", << [FD("a", TOpt(TInt), VUndef) EXCEPT !.nau = TRUE], FD("b", TInt, DInt(1)) >>),
   FL   |-> Cls("dataclass", << F("c", TStr), [F("p", TObj("P2")) EXCEPT !.flat = TRUE] >>),
   FL2  |-> Cls("dataclass", << [F("f", TObj("FL")) EXCEPT !.flat = TRUE], FD("d", TInt, DInt(0)) >>),
   PP   |-> Cls("dataclass", << F("a", TInt),
                                [FD("z", TMap(TStr, TInt), VDict(<<>>)) EXCEPT !.props = "pat", !.pat = "pz", !.dk = "fac"],
                                [FD("o", TMap(TStr, TStr), VDict(<<>>)) EXCEPT !.props = "add", !.dk = "fac"] >>),
   PA   |-> Cls("dataclass", << [F("o", TMap(TStr, TAny)) EXCEPT !.props = "add"], FD("a", TInt, DInt(0)) >>),
   DR   |-> [Cls("dataclass", << FD("a", TInt, DInt(0)), FD("b", TInt, DInt(0)), FD("c", TInt, DInt(0)) >>)
               EXCEPT !.depreq = << <<"a", <<"b">> >> >>],
   REC  |-> Cls("dataclass", << F("a", TInt), FD("c", TOpt(TObj("REC")), DNull) >>),
   \* a subclass RE-ANNOTATES an inherited field (int -> str): the subclass's annotation is the one that counts
   BA   |-> Cls("dataclass", << F("x", TInt) >>),
   SB   |-> [Cls("dataclass", << F("x", TStr), FD("y", TInt, DInt(0)) >>) EXCEPT !.bases = <<"BA">>],
   \* the schema metadata wrapped AROUND the Optional / Undefined union of a field
   AO   |-> Cls("dataclass", << F("a", TInt), FD("o", TAnnot(TOpt(TInt), << <<"min", 0>> >>), DNull),
                                FD("u", TAnnot(TUnion(<<TInt, TUndef>>), << <<"max", 9>> >>), VUndef) >>),
   \* a constraint carried by the REFERENCE to the recursive class (field metadata)
   RC   |-> Cls("dataclass", << F("a", TInt), [FD("c", TOpt(TObj("RC")), DNull) EXCEPT !.cons = << <<"min_props", 2>> >>] >>),
   MA   |-> Cls("dataclass", << F("a", TInt), FD("b", TOpt(TObj("MB")), DNull) >>),
   MB   |-> Cls("dataclass", << FD("a", TOpt(TObj("MA")), DNull), FD("x", TStr, DStr("")) >>),
   CF   |-> Cls("dataclass", << [F("a", TInt) EXCEPT !.cons = << <<"min", 2>>, <<"max", 8>> >>],
                                [FD("s", TStr, DStr("ab")) EXCEPT !.cons = << <<"min_len", 1>>, <<"pattern", "pa">> >>] >>),
   IV   |-> Cls("dataclass", << F("a", TInt), [F("w", TInt) EXCEPT !.kind = "wo"] >>),
   NT   |-> Cls("namedtuple", << F("a", TInt), FD("b", TStr, DStr("q")) >>),
   TD   |-> Cls("typeddict", << F("a", TInt), FD("b", TStr, VUndef) >>),
   TDE  |-> Cls("typeddict", << F("e", TEnum("ES")), FD("t", TTuple(<<TInt, TStr>>), VUndef) >>),
   TDO  |-> Cls("typeddict", << FD("a", TInt, VUndef), FD("b", TColl("list", TInt), VUndef) >>),
   CAT  |-> Cls("dataclass", << F("a", TInt), [FD("knd", TLit(<<DStr("cat")>>), DStr("cat")) EXCEPT !.alias = "type"] >>),
   \* a TypedDict declaring the discriminator as a Literal key: the alternative of a discriminated union MIXING
   \* TypedDict and class alternatives (a TypedDict value is a plain dict, a class instance is told by its class)
   TDK  |-> Cls("typeddict", << F("type", TLit(<<DStr("tdk")>>)), F("n", TInt) >>),
   DOG  |-> Cls("dataclass", << [F("knd", TLit(<<DStr("dog"), DStr("d")>>)) EXCEPT !.alias = "type"], FD("b", TStr, DStr("")) >>),
   \* serialization-side features
   SD   |-> Cls("dataclass", << F("a", TInt), [FD("b", TInt, DInt(1)) EXCEPT !.skip_default = TRUE],
                                [FD("c", TStr, DStr("x")) EXCEPT !.skip_if = "empty"] >>),
   SS   |-> Cls("dataclass", << F("a", TInt), [FD("b", TInt, DInt(3)) EXCEPT !.skips = TRUE],
                                [FD("n", TOpt(TInt), DNull) EXCEPT !.skip_if = "neg"] >>),
   UD   |-> Cls("dataclass", << FD("a", TInt, VUndef), FD("b", TUnion(<<TStr, TUndef>>), VUndef),
                                FD("c", TUnion(<<TInt, TNone, TUndef>>), DNull) >>),
   SMT  |-> [Cls("dataclass", << F("a", TInt), FD("b", TOpt(TStr), DNull) >>)
               EXCEPT !.smethods = << SM("m1", "m1", TInt, DInt(5)), SM("m2", "mm", TOpt(TInt), DNull),
                                      SM("m3", "m3", TUnion(<<TStr, TUndef>>), VUndef),
                                      SM("m4", "m4", TColl("list", TInt), VList(<<DInt(1)>>)) >>],
   \* a subclass declares ANOTHER method under the alias of a serialized method of its base (other return type): the subclass's wins
   SMB  |-> [Cls("dataclass", << F("a", TInt) >>) EXCEPT !.smethods = << SM("m1", "m1", TInt, DInt(5)) >>],
   SMS  |-> [Cls("dataclass", << [F("a", TInt) EXCEPT !.inherited = TRUE] >>)
               EXCEPT !.smethods = << SM("m9", "m1", TStr, DStr("sub")) >>, !.bases = <<"SMB">>],
   \* __post_init__ (adds 100 to field a), defined by PIB and merely inherited by PIC
   PIB  |-> [Cls("dataclass", << F("a", TInt) >>) EXCEPT !.postinc = "a"],
   PIC  |-> [Cls("dataclass", << [F("a", TInt) EXCEPT !.inherited = TRUE], FD("b", TStr, DStr("x")) >>)
               EXCEPT !.postinc = "a", !.bases = <<"PIB">>],
   \* a plain subclass pair: an instance of DS is a value of BS as well (and of the first alternative of Union[BS, DS])
   BS   |-> Cls("dataclass", << F("a", TInt) >>),
   DS   |-> [Cls("dataclass", << [F("a", TInt) EXCEPT !.inherited = TRUE], FD("b", TStr, DStr("x")) >>) EXCEPT !.bases = <<"BS">>],
   \* TypedDict with an explicitly aliased key
   TDA  |-> Cls("typeddict", << [F("foo", TInt) EXCEPT !.alias = "Foo"], FD("bar", TEnum("ES"), VUndef) >>),
   CZ   |-> Cls("dataclass", << [F("a", TAnnot(TInt, << <<"min", 0>> >>)) EXCEPT !.cons = << <<"max", 10>> >>],
                                [FD("l", TAnnot(TColl("list", TInt), << <<"max_items", 0>> >>), VList(<<>>)) EXCEPT !.cons = << <<"unique", TRUE>> >>, !.dk = "fac"] >>),
   \* asymmetric fields of NAMED types: recursive only through a read-only (init=False) field;
   \* an InitVar (write-only) field whose type is a class
   RO   |-> Cls("dataclass", << F("a", TInt), [FD("back", TOpt(TObj("RO")), DNull) EXCEPT !.kind = "ro"] >>),
   IVN  |-> Cls("dataclass", << F("a", TInt), [F("w", TObj("P1")) EXCEPT !.kind = "wo"], FD("e", TEnum("ES"), VEnum("ES", "A")) >>),
   \* a REQUIRED Optional field (exclude_none applies to it too)
   OR   |-> Cls("dataclass", << F("r", TOpt(TInt)), FD("d", TOpt(TStr), DNull) >>),
   \* a regular field whose external name matches the pattern of a pattern-properties field
   PM   |-> Cls("dataclass", << [F("a", TStr) EXCEPT !.alias = "zz"],
                                [FD("z", TMap(TStr, TInt), VDict(<<>>)) EXCEPT !.props = "pat", !.pat = "pz", !.dk = "fac"] >>),
   \* a pattern-properties field whose own name does not match its pattern, no additional-properties field
   PQ   |-> Cls("dataclass", << F("a", TInt),
                                [FD("q", TMap(TStr, TInt), VDict(<<>>)) EXCEPT !.props = "pat", !.pat = "pz", !.dk = "fac"] >>),
   \* an aggregate (flattened) field next to a regular field with a default FACTORY
   FC   |-> Cls("dataclass", << F("c", TInt), [F("p", TObj("P1")) EXCEPT !.flat = TRUE],
                                [FD("d", TColl("list", TInt), VList(<<>>)) EXCEPT !.dk = "fac"] >>),
   \* `required` (with a default) carried INSIDE Annotated rather than by field(metadata=...): `mdann` is read by the
   \* bridge alone, the semantics are those of RQ
   RQA  |-> Cls("dataclass", << [FD("a", TInt, DInt(0)) EXCEPT !.reqmd = TRUE] @@ [mdann |-> TRUE], FD("b", TStr, DStr("")) >>),
   \* a TypedDict whose REQUIRED key is Optional (None is a value, never a default)
   TDR  |-> Cls("typeddict", << F("s", TStr), F("v", TOpt(TFloat)) >>),
   \* a NAMED type used twice (hence a $ref), once with a constraint added at the use site AND an annotation (default)
   \* beside it: dialects that ignore the siblings of $ref need the reference isolated
   NR   |-> Cls("dataclass", << F("m", TNew("NI", TInt)), [FD("n", TNew("NI", TInt), DInt(3)) EXCEPT !.cons = << <<"min", 2>> >>] >>),
   UF   |-> Cls("dataclass", << F("u", TUnion(<<TInt, TEnum("ES")>>)), FD("l", TUnion(<<TEnum("EI"), TStr>>), DStr("s")) >>),
   EF   |-> Cls("dataclass", << F("e", TEnum("EI")), FD("l", TLit(<<DStr("a"), DInt(2)>>), DStr("a")) >>)]

ObjClasses == DOMAIN UClasses

\* ---- options
UAliasers ==
  [id    |-> <<>>,
   upper |-> << <<"a", "A">>, <<"b", "B">>, <<"bb", "BB">>, <<"c", "C">>, <<"d", "D">>, <<"e", "E">>,
                <<"l", "L">>, <<"s", "S">>, <<"x", "X">>, <<"z", "Z">>, <<"o", "O">>, <<"p", "P">>,
                <<"f", "F">>, <<"w", "W">>, <<"t", "T">>, <<"u", "U">>, <<"type", "TYPE">>, <<"kind", "KIND">>,
                <<"m1", "M1">>, <<"mm", "MM">>, <<"m3", "M3">>, <<"m4", "M4">>, <<"n", "N">>, <<"knd", "KND">>,
                <<"Foo", "FOO">>, <<"bar", "BAR">>, <<"foo", "FOO2">>, <<"r", "R">>, <<"zz", "ZZ">>, <<"back", "BACK">>, <<"q", "Q">>, <<"y", "Y">> >>]

Opt(addl, fbd, coerce, ali) == [addl |-> addl, fbd |-> fbd, coerce |-> coerce, ali |-> UAliasers[ali], aliname |-> ali,
                                impl |-> FALSE, dev |-> {}, setuniq |-> FALSE]
Ctx(O) == [C |-> UClasses, En |-> UEnums, O |-> O, S |-> UStrAttr]

\* ---- types
AnyCons == TAnnot(TAny, << <<"min", 1>>, <<"max_len", 1>>, <<"max_items", 1>> >>)
Leaves ==
  { TNone, TBool, TInt, TFloat, TStr, TAny,
    TLit(<<DInt(1), DInt(2)>>), TLit(<<DStr("a"), DStr("b")>>), TLit(<<DInt(1), DStr("a")>>),
    TLit(<<DStr("")>>), TEnum("E1"),
    \* Literal["q", ES.B, 7]: primitive values mixed with a member of a plain Enum
    TLitM(<<DStr("q"), DStr("b"), DInt(7)>>, <<[k |-> "none"], VEnum("ES", "B"), [k |-> "none"]>>),             \* single-valued and FALSY: the schema uses `const`
    TEnum("EI"), TEnum("ES"), TEnum("EM"),
    TNew("NI", TInt),
    TAnnot(TInt,   << <<"min", 2>>, <<"max", 6>> >>),
    TAnnot(TInt,   << <<"exc_min", 0>>, <<"mult_of", 4>> >>),
    TAnnot(TFloat, << <<"exc_max", 5>>, <<"min", -2>> >>),
    TAnnot(TStr,   << <<"min_len", 1>>, <<"max_len", 2>> >>),
    TAnnot(TStr,   << <<"pattern", "pa">> >>),
    \* constraints on several levels, a zero-valued one innermost
    TAnnot(TAnnot(TInt, << <<"min", 0>> >>), << <<"max", 6>> >>),
    TAnnot(TNew("NZ", TAnnot(TFloat, << <<"exc_min", 0>> >>)), << <<"mult_of", 3>> >>),
    TAnnot(TAnnot(TStr, << <<"min_len", 0>>, <<"max_len", 2>> >>), << <<"pattern", "pa">> >>),
    \* constraints on an Any position: each applies to the data of its own JSON type (numbers: integers AND floats)
    AnyCons }

Ctor1(t) ==
  { TColl("list", t), TColl("vtuple", t), TMap(TStr, t), TOpt(t),
    TTuple(<<t>>), TTuple(<<TInt, t>>), TTuple(<<t, TStr, TBool>>),
    TAnnot(TColl("list", t), << <<"min_items", 1>>, <<"max_items", 2>> >>),
    TUnion(<<t, TStr>>), TUnion(<<TInt, t>>), TUnion(<<TColl("list", TInt), t>>) }

HashableLeaves == Leaves \ {TAny, AnyCons}
SetTypes  == { TColl(c, t) : c \in {"set", "fset"}, t \in HashableLeaves \cup {TTuple(<<TInt, TStr>>)} }
          \cup { TAnnot(TColl("list", TInt), << <<"unique", TRUE>> >>) }
          \* a size constraint on a set: it reads the DATA (an array with duplicates), not the deduplicated value
          \* (an upper bound only: a LOWER bound met by duplicates gives a value whose image no longer meets it)
          \cup { TAnnot(TColl("set", TInt), << <<"max_items", 2>> >>) }
MapTypes  == { TMap(TAnnot(TStr, << <<"pattern", "pa">> >>), TInt), TMap(TLit(<<DStr("a"), DStr("b")>>), TInt),
               TMap(TEnum("ES"), TInt), TMap(TEnum("ES"), TFloat), TAnnot(TMap(TStr, TInt), << <<"min_props", 1>>, <<"max_props", 1>> >>) }
\* declared through an ABSTRACT collection (typing.Sequence): built as a list (a tuple is a value of it too), serialized as an array
SeqTypes  == { TColl("seq", TInt), TColl("seq", TStr), TColl("seq", TObj("P1")), TOpt(TColl("seq", TFloat)) }
ObjTypes  == { TObj(c) : c \in ObjClasses }
\* unions with an alternative marked Unsupported: `alts` are the alternatives apischema sees (all the
\* semantics read them only), `uns` the <<position in the declaration, type>> of the ignored ones,
\* read by the bridge alone: Union[Annotated[str, Unsupported], None, int] ...
UnsUnions == { [k |-> "union", alts |-> <<TNone, TInt>>, uns |-> << <<1, TStr>> >>],
               [k |-> "union", alts |-> <<TInt, TNone>>, uns |-> << <<2, TStr>> >>],
               [k |-> "union", alts |-> <<TInt, TNone>>, uns |-> << <<1, TObj("P1")>> >>],
               [k |-> "union", alts |-> <<TInt, TStr>>, uns |-> << <<1, TObj("P1")>>, <<4, TNone>> >>] }
UnionTypes == { TUnion(<<TInt, TFloat>>), TUnion(<<TFloat, TInt>>), TUnion(<<TInt, TFloat, TBool>>),
                TUnion(<<TStr, TLit(<<DStr("a")>>)>>), TUnion(<<TLit(<<DStr("a")>>), TStr>>),
                TUnion(<<TObj("P1"), TObj("P2")>>), TUnion(<<TObj("P2"), TObj("P1")>>),
                \* a class and its subclass as alternatives, in both orders; a container of the base class
                TUnion(<<TObj("BS"), TObj("DS")>>), TUnion(<<TObj("DS"), TObj("BS")>>), TUnion(<<TObj("DS"), TObj("BS"), TNone>>),
                TColl("list", TObj("BS")), TMap(TStr, TObj("BS")),
                \* a class next to alternatives of other JSON types: dispatched by the type of the datum
                TUnion(<<TObj("P1"), TInt, TColl("list", TInt)>>), TColl("list", TUnion(<<TObj("P1"), TStr>>)),
                TUnion(<<TColl("list", TInt), TTuple(<<TInt, TStr>>)>>),
                TUnion(<<TEnum("ES"), TStr, TNone>>), TUnion(<<TFloat, TStr>>),
                TUnion(<<TUnion(<<TInt, TStr>>), TNone>>),
                TUnion(<<TAnnot(TInt, << <<"min", 2>> >>), TAnnot(TInt, << <<"max", -2>> >>)>>),
                \* an integer AND a number alternative, both able to reject an integer (by-type dispatch falls back from int to float)
                TUnion(<<TAnnot(TInt, << <<"min", 2>> >>), TAnnot(TFloat, << <<"max", -2>> >>), TStr>>) }
              \cup UnsUnions
              \* constraints carried by the union itself (alternatives of pairwise distinct JSON types: by-type dispatch)
              \cup { TAnnot(TUnion(<<TInt, TStr>>), << <<"min", 0>>, <<"max_len", 1>> >>),
                     TAnnot(TUnion(<<TFloat, TStr, TNone>>), << <<"max", 2>> >>) }


DUnionTypes == { TDUnion(<<TObj("P1"), TObj("P2")>>, "kind", << <<"P1">>, <<"P2">> >>, "default"),
                 TDUnion(<<TObj("P2"), TObj("P3")>>, "kind", << <<"x">>, <<"y", "zz">> >>, "explicit"),
                 \* a PARTIAL explicit mapping: P2 is keyed "x" only (its implicit name is overridden), P1 stays implicit
                 TDUnion(<<TObj("P1"), TObj("P2")>>, "kind", << <<"P1">>, <<"x">> >>, "partial"),
                 TDUnion(<<TObj("P1"), TObj("PA"), TObj("FL")>>, "type", << <<"P1">>, <<"PA">>, <<"FL">> >>, "default"),
                 \* the discriminator is a declared (aliased) Literal field of the alternatives
                 TDUnion(<<TObj("CAT"), TObj("DOG"), TObj("P1")>>, "type", << <<"cat">>, <<"dog", "d">>, <<"P1">> >>, "default"),
                 TDUnion(<<TObj("TDK"), TObj("P1"), TObj("CAT")>>, "type", << <<"tdk">>, <<"P1">>, <<"cat">> >>, "default"),
                 \* ... and one where the TypedDict is the only alternative DECLARING the discriminator
                 TDUnion(<<TObj("TDK"), TObj("P1")>>, "type", << <<"tdk">>, <<"P1">> >>, "default") }

\* typing itself collapses duplicate alternatives (Union[str, str] is str): not distinct types
RECURSIVE WF(_)
WF(t) == CASE t.k = "union" -> (\A i, j \in DOMAIN t.alts : i # j => t.alts[i] # t.alts[j])
                               /\ \A i \in DOMAIN t.alts : WF(t.alts[i])
           [] t.k = "coll"  -> WF(t.e)
           [] t.k = "annot" -> WF(t.t)
           [] t.k = "tuple" -> \A i \in DOMAIN t.es : WF(t.es[i])
           [] t.k = "map"   -> WF(t.vt)
           [] OTHER -> TRUE

\* containers / fields of unions mixing a check-only alternative with a transforming one
MixedUnions == { TUnion(<<TInt, TEnum("ES")>>), TUnion(<<TEnum("EI"), TStr>>), TUnion(<<TInt, TLit(<<DStr("a"), DInt(2)>>)>>),
                 TUnion(<<TStr, TFloat>>), TUnion(<<TInt, TColl("set", TInt)>>) }
NestedUnionTypes == { TColl("list", t) : t \in MixedUnions } \cup { TMap(TStr, t) : t \in MixedUnions }
                    \cup { TColl("vtuple", t) : t \in MixedUnions } \cup { TOpt(TColl("list", t)) : t \in MixedUnions }

\* nullable structured types (their schema has a type LIST next to structural keywords)
OptStructured == { TOpt(TTuple(<<TInt, TStr>>)), TOpt(TColl("list", TInt)), TOpt(TMap(TStr, TInt)), TOpt(TObj("P2")),
                   TOpt(TColl("set", TStr)), TUnion(<<TTuple(<<TBool>>), TStr, TNone>>) }

TypesD0 == Leaves
TypesD1 == { t \in UNION { Ctor1(t) : t \in Leaves } \cup SetTypes \cup SeqTypes \cup MapTypes \cup ObjTypes \cup UnionTypes
                    \cup NestedUnionTypes \cup OptStructured
                    \cup DUnionTypes \cup { TColl("list", t) : t \in DUnionTypes } : WF(t) }
\* depth 2: constructors over a sample of depth-1 types
D1Sample == { TColl("list", TInt), TOpt(TStr), TMap(TStr, TInt), TTuple(<<TInt, TStr>>), TObj("P2"),
              TObj("FL"), TObj("REC"), TUnion(<<TInt, TStr>>), TColl("set", TInt),
              TAnnot(TColl("list", TInt), << <<"min_items", 1>> >>) }
TypesD2 == { t \in UNION { Ctor1(t) : t \in D1Sample } : WF(t) }

\* unions for C13: every ordered pair (and a sample of triples) of alternatives from a pool
\* containing alternatives that share a JSON type
UPool == { TInt, TFloat, TBool, TStr, TNone, TAny, TNew("NI", TInt),
           TAnnot(TInt, << <<"max", 6>> >>), TAnnot(TFloat, << <<"min", 4>> >>), TAnnot(TStr, << <<"min_len", 2>> >>),
           TLit(<<DInt(1), DInt(2)>>), TLit(<<DStr("a")>>), TEnum("ES"), TEnum("EI"),
           TColl("list", TInt), TColl("list", TStr), TTuple(<<TInt, TStr>>), TMap(TStr, TInt),
           TObj("P1"), TObj("P2"), TObj("TD") }
UTriples == { <<TInt, TFloat, TBool>>, <<TFloat, TInt, TStr>>, <<TStr, TLit(<<DStr("a")>>), TNone>>,
              <<TObj("P1"), TObj("P2"), TNone>>, <<TColl("list", TInt), TTuple(<<TInt, TStr>>), TStr>>,
              <<TAnnot(TInt, << <<"max", 6>> >>), TFloat, TNone>>, <<TNone, TInt, TStr>>,
              <<TEnum("ES"), TStr, TInt>>, <<TBool, TInt, TColl("list", TInt), TMap(TStr, TInt)>>,
              <<TUnion(<<TInt, TStr>>), TFloat, TNone>> }
TypesU == { TUnion(<<p[1], p[2]>>) : p \in {q \in UPool \X UPool : q[1] # q[2]} }
          \cup { TUnion(t) : t \in UTriples }
          \cup { TColl("list", TUnion(<<p[1], p[2]>>)) :
                    p \in {q \in {TInt, TFloat, TStr} \X {TFloat, TInt, TNone} : q[1] # q[2]} }

\* ---- data
Atoms == { DNull, DBool(TRUE), DBool(FALSE), DInt(0), DInt(1), DInt(2), DInt(3), DInt(-1), DInt(7),
           DFloat(3), DFloat(4), DFloat(-3), DStr(""), DStr("a"), DStr("ab"), DStr("abc"), DStr("1"),
           DStr("b"), DArr(<<>>), DObj(<<>>) }
\* numeric strings, boolean words in several cases, '' : what coercion is about (C14)
CoerceAtoms == { DStr("true"), DStr("YES"), DStr("no"), DStr("1.5"), DStr("07"), DStr("0"), DStr("-1"), DStr("2"),
                 DStr("x"), DFloat(4), DFloat(-3) }
SmallAtoms == { DNull, DBool(TRUE), DInt(1), DInt(3), DFloat(3), DStr("a"), DStr("1"), DArr(<<>>), DObj(<<>>) }

\* a conforming and a non conforming atom for T, when they exist
ValidAtoms(ctx, T)   == { d \in Atoms : Conforms(ctx, T, d) }
InvalidAtoms(ctx, T) == { d \in SmallAtoms : ~Conforms(ctx, T, d) }
PickSome(S, n) == IF Cardinality(S) <= n THEN S
                  ELSE LET RECURSIVE take(_, _)
                           take(R, i) == IF i = 0 \/ R = {} THEN {}
                                         ELSE LET x == CHOOSE y \in R : TRUE IN {x} \cup take(R \ {x}, i - 1)
                       IN take(S, n)

RECURSIVE Cand(_, _, _)
\* candidate data for T; n = remaining nesting budget (wide at the top, narrow below)
Cand(ctx, T, n) ==
  LET W == IF n >= 2 THEN 3 ELSE 2       \* candidates kept per nested position
      \* always a conforming value when one exists: PickSome alone may keep only rejected candidates
      sub(t) == IF n = 0 THEN PickSome(ValidAtoms(ctx, t), 1) \cup PickSome(InvalidAtoms(ctx, t), 1)
                ELSE PickSome(ValidAtoms(ctx, t), 1) \cup PickSome(Cand(ctx, t, n - 1), 2 * W)
      flatKeysOf(cls) == FlatAliases(ctx, cls)
  IN
  CASE T.k \in {"prim", "any", "lit", "enum"} ->
         (IF n >= 2 THEN Atoms ELSE SmallAtoms) \cup (IF ctx.O.coerce /\ n >= 1 THEN CoerceAtoms ELSE {})
    [] T.k = "newtype" -> Cand(ctx, T.sup, n)
    [] T.k = "annot"   -> Cand(ctx, T.t, n) \cup {DInt(4), DInt(6), DFloat(5), DFloat(10), DFloat(-4), DFloat(-5)}
    [] T.k = "coll"    ->
         SmallAtoms \cup {DArr(<<>>)} \cup {DArr(<<x>>) : x \in sub(T.e)}
                    \cup {DArr(<<x, y>>) : x \in sub(T.e), y \in sub(T.e)}
                    \cup {DArr(<<x, x, x>>) : x \in PickSome(ValidAtoms(ctx, T.e), 1)}
                    \* twelve elements, rejected ones at indices 2 and 10 (the order of the error list compares 2 and 10)
                    \cup {DArr([i \in 1..12 |-> IF i \in {3, 11} THEN y ELSE x]) :
                             x \in PickSome(ValidAtoms(ctx, T.e), 1), y \in PickSome(InvalidAtoms(ctx, T.e), 1)}
    [] T.k = "tuple"   ->
         SmallAtoms \cup {DArr(<<>>)}
           \cup (IF Len(T.es) = 1 THEN {DArr(<<x>>) : x \in sub(T.es[1])} \cup {DArr(<<x, x>>) : x \in sub(T.es[1])}
                 ELSE IF Len(T.es) = 2
                   THEN {DArr(<<x, y>>) : x \in sub(T.es[1]), y \in sub(T.es[2])}
                        \cup {DArr(<<x>>) : x \in sub(T.es[1])}
                        \cup {DArr(<<x, y, y>>) : x \in PickSome(sub(T.es[1]), 1), y \in PickSome(sub(T.es[2]), 1)}
                 ELSE {DArr(<<x, y, z>>) : x \in sub(T.es[1]), y \in PickSome(sub(T.es[2]), 2), z \in PickSome(sub(T.es[3]), 2)}
                        \cup {DArr(<<x, y>>) : x \in PickSome(sub(T.es[1]), 1), y \in PickSome(sub(T.es[2]), 1)})
    [] T.k = "map"     ->
         SmallAtoms \cup {DObj(<<>>)}
           \cup {DObj(<< <<key, x>> >>) : key \in {"a", "zz", "1"}, x \in sub(T.vt)}
           \cup {DObj(<< <<"a", x>>, <<"b", y>> >>) : x \in sub(T.vt), y \in sub(T.vt)}
    [] T.k = "union"   -> UNION {Cand(ctx, T.alts[i], n) : i \in DOMAIN T.alts}
    [] T.k = "dunion"  ->
         LET al == Ali(ctx, T.alias)
             tags == UNION {{DStr(T.keys[i][j]) : j \in DOMAIN T.keys[i]} : i \in DOMAIN T.keys} \cup {DStr("zz"), DInt(1)}
                     \* the implicit names, whether or not an explicit mapping overrides them
                     \cup {DStr(T.alts[i].cls) : i \in {j \in DOMAIN T.alts : T.alts[j].k = "obj"}}
             base == UNION {PickSome(Cand(ctx, T.alts[i], IF n > 0 THEN n - 1 ELSE 0), 12) : i \in DOMAIN T.alts}
         IN SmallAtoms \cup {x \in base : x.k = "obj"}
              \cup {DObj(SelectSeq(x.o, LAMBDA p : p[1] # al) \o << <<al, tag>> >>) : x \in {y \in base : y.k = "obj"}, tag \in tags}
              \cup {DObj(<< <<al, tag>> >> \o SelectSeq(x.o, LAMBDA p : p[1] # al)) : x \in {y \in base : y.k = "obj"}, tag \in tags}
    [] T.k = "obj"     ->
         LET K  == ctx.C[T.cls]
             fs == K.fields
             \* per field: absent, or one of a few values
             keysOf(f) == IF f.flat THEN {Ali(ctx, a) : a \in flatKeysOf(Unwrap(f.type).cls)}
                          ELSE IF f.props = "pat" THEN {"z9"}
                          ELSE IF f.props = "add" THEN {"zz"}
                          ELSE {Ext(ctx, f)}
             valsOf(f) == IF f.flat THEN PickSome(Atoms, 2)
                          ELSE IF f.props # "no" THEN sub(f.type.vt)
                          ELSE PickSome(ValidAtoms(ctx, FType(f)), 1) \cup PickSome(InvalidAtoms(ctx, FType(f)), 1)
                               \* structured candidates first: PickSome alone may keep atoms only
                               \cup (IF n > 0 /\ f.type.k \notin {"prim"}
                                     THEN LET cs   == Cand(ctx, FType(f), n - 1)
                                              conf == {x \in cs : x.k = "obj" /\ Conforms(ctx, FType(f), x)}
                                              \* the conforming objects with the most / the fewest keys: those a
                                              \* container constraint carried by the FIELD can still reject
                                              big  == {x \in conf : \A y \in conf : Len(y.o) <= Len(x.o)}
                                              small == {x \in conf : \A y \in conf : Len(y.o) >= Len(x.o)}
                                          IN PickSome({x \in cs : x.k \in {"obj", "arr"}}, W)
                                             \cup PickSome(big, 1) \cup PickSome(small, 1) \cup PickSome(cs, 1)
                                     ELSE {})
             \* ... and the own names of the aggregate fields, which are not properties of the object
             aggNames == {Ext(ctx, fs[i]) : i \in {j \in DOMAIN fs : fs[j].flat \/ fs[j].props # "no"}}
             allKeys == SetToSeq(UNION {keysOf(fs[i]) : i \in DOMAIN fs} \cup {"zz"} \cup aggNames)
             choices(key) ==
               LET owners == {i \in DOMAIN fs : key \in keysOf(fs[i])} IN
               IF owners = {} THEN {<<>>, <<<<key, DInt(1)>>>>}
               ELSE LET f == fs[CHOOSE i \in owners : TRUE] IN
                    {<<>>} \cup { <<<<key, x>>>> :
                        x \in IF f.flat THEN
                                 \* value for one key of a flattened class: typed by the inner field
                                 {DInt(1), DStr("a")}
                              ELSE valsOf(f) }
             RECURSIVE build(_)
             build(i) == IF i > Len(allKeys) THEN {<<>>}
                         ELSE {c \o r : c \in choices(allKeys[i]), r \in build(i + 1)}
         IN SmallAtoms \cup {DObj(o) : o \in build(1)}

DataFor(ctx, T) == Cand(ctx, T, 2)
=============================================================================
