------------------------------- MODULE GraphQL -------------------------------
(***************************************************************************)
(* C19 -- the GraphQL schema mirrors the data model and executes like      *)
(* (de)serialize.                                                          *)
(*                                                                         *)
(* A model  M == [ct, enums]  is a class table                             *)
(*   ct[n] == [kind : "object" | "interface" | "hidden" (a concrete class   *)
(*             not given to graphql_schema), bases : Seq(name),            *)
(*             fields : Seq([name, alias, t, def, flat]),                  *)
(*             resolvers : Seq([name, params : Seq([name, t, def]), ret,   *)
(*                              src (Python body), v (its result), sel])]  *)
(*   def   == [k|->"req"] | [k|->"null"] | [k|->"undef"] | [k|->"unser"]   *)
(*            | [k|->"val", v]                                             *)
(* and types  int str bool id score(NewType over int) cint(int >= 0)       *)
(*   list(e) opt(e) und(e)=Union[e, UndefinedType] enum(n) lit obj(n)      *)
(*   uni(<<n..>>).                                                         *)
(*                                                                         *)
(* Three parts:                                                            *)
(*  1. TYPE MAP (Layer R = the documented mapping): Ty renders the GraphQL *)
(*     type expression of a Python type, nullability included; Interfaces  *)
(*     is the transitive closure the GraphQL spec demands; InField gives   *)
(*     the nullability / default of input fields and arguments.            *)
(*  2. EXECUTION: GSer is serialize without conditional omission, enums by *)
(*     NAME, Undefined as null, the runtime class deciding the fields.     *)
(*  3. ARGUMENTS: a small machine.  ArgR is the rule (an argument is       *)
(*     deserialized exactly as deserialize would; an omitted one takes the *)
(*     Python default; an explicit null is None for an Optional parameter);*)
(*     ArgM transcribes resolver_resolve.resolve with what graphql-core    *)
(*     puts in kwargs.                                                     *)
(* Deviations: "nullskips" (seeded shape: explicit null replaced by the    *)
(* default), "directbases" (seeded shape: only direct interface bases),    *)
(* "ehcatchesargs" (seeded shape: an error_handler swallows argument       *)
(* errors), "enumdefault" (pinned tree, known finding: the default handed to        *)
(* graphql-core for an Enum-typed argument / input field is the serialized *)
(* VALUE, which reaches the resolver as a raw string), "idliteralraw"       *)
(* (pinned tree, repaired: under id_encoding an ID given as a LITERAL in   *)
(* the query is not decoded, only IDs given through variables are).        *)
(*                                                                         *)
(* 4. RESOLVER OUTCOMES: a resolver that raises, under error_handler unset *)
(* (GraphQL error), None (the error is discarded, the field is null and    *)
(* its type nullable) or a custom handler (its result is serialized), for  *)
(* synchronous and asynchronous resolvers / handlers.  Deviation           *)
(* "asyncunhandled" (pinned tree, repaired): the handler only guarded the  *)
(* CALL of the resolver, so the exception of an async resolver, raised     *)
(* when the coroutine is awaited, never reached it.                        *)
(*                                                                         *)
(* ID types: TId is apischema.graphql.ID, TUid a NewType over str listed   *)
(* in id_types: both are the GraphQL scalar ID.  IdEnc says whether the     *)
(* schema was built with id_encoding = (IdDecode, IdEncode): output IDs    *)
(* are encoded AFTER serialization, input IDs decoded BEFORE               *)
(* deserialization, whatever channel (literal / variable) carries them.    *)
(***************************************************************************)
EXTENDS Values

CONSTANTS Deviations,
          IdEnc       \* the schema is built with id_encoding

TInt == [k |-> "int"]   TStr == [k |-> "str"]   TBool == [k |-> "bool"]  TId == [k |-> "id"]
TUid == [k |-> "uid"]
TScore == [k |-> "score"]  TCInt == [k |-> "cint"]  TLit == [k |-> "lit"]
TList(e) == [k |-> "list", e |-> e]
TOpt(e)  == [k |-> "opt", e |-> e]
TUnd(e)  == [k |-> "und", e |-> e]
TEnum(n) == [k |-> "enum", n |-> n]
TObj(n)  == [k |-> "obj", n |-> n]
TUni(ns) == [k |-> "uni", ns |-> ns]

Req == [k |-> "req"]  DfNull == [k |-> "null"]  DfUndef == [k |-> "undef"]  DfUnser == [k |-> "unser"]
DfVal(v) == [k |-> "val", v |-> v]
\* a Python default next to the `required` metadata: required in the DATA (input field non-null, no default shown)
DfReqVal(v) == [k |-> "reqval", v |-> v]

---------------------------------------------------------------------------
\* 1. TYPE MAP

RECURSIVE ConcatNames(_)
\* default union_name_factory: "Or".join(names)
ConcatNames(ns) == IF Len(ns) = 1 THEN Head(ns) ELSE Head(ns) \o "Or" \o ConcatNames(Tail(ns))

\* [s : the nullable form, nn : non-null]
RECURSIVE Ty(_, _)
Render(p) == p.s \o (IF p.nn THEN "!" ELSE "")
Ty(T, io) ==
  CASE T.k \in {"int", "cint"} -> [s |-> "Int", nn |-> TRUE]
    [] T.k = "str"   -> [s |-> "String", nn |-> TRUE]
    [] T.k = "bool"  -> [s |-> "Boolean", nn |-> TRUE]
    [] T.k \in {"id", "uid"} -> [s |-> "ID", nn |-> TRUE]
    [] T.k = "score" -> [s |-> "Score", nn |-> TRUE]
    [] T.k = "lit"   -> [s |-> "Lit", nn |-> TRUE]
    [] T.k = "enum"  -> [s |-> T.n, nn |-> TRUE]
    [] T.k = "obj"   -> [s |-> IF io = "in" THEN T.n \o "Input" ELSE T.n, nn |-> TRUE]
    [] T.k = "uni"   -> [s |-> ConcatNames(T.ns), nn |-> TRUE]
    [] T.k = "list"  -> [s |-> "[" \o Render(Ty(T.e, io)) \o "]", nn |-> TRUE]
    [] T.k \in {"opt", "und"} -> [Ty(T.e, io) EXCEPT !.nn = FALSE]

\* nullable in the schema: Optional and Undefined-able types; only Optional ACCEPTS null
IsNullable(T) == T.k \in {"opt", "und"}
IsOptional(T) == T.k = "opt"

\* input fields / arguments: nullable as soon as the default cannot be shown (None, Undefined,
\* unserializable); a shown default makes the argument optional for the client
InField(T, def) ==
  [type |-> Render(IF def.k \in {"null", "undef", "unser"} THEN [Ty(T, "in") EXCEPT !.nn = FALSE] ELSE Ty(T, "in")),
   hasDefault |-> def.k = "val"]

\* every @interface ancestor: GraphQL requires the closure
RECURSIVE Ancestors(_, _)
Ancestors(M, n) ==
  LET bs == M.ct[n].bases IN
  {bs[i] : i \in DOMAIN bs} \cup UNION {Ancestors(M, bs[i]) : i \in DOMAIN bs}
InterfacesR(M, n) == {a \in Ancestors(M, n) : M.ct[a].kind = "interface"}
\* Layer M: get_interfaces = the interfaces of cls.__mro__[1:]
InterfacesM(M, n) ==
  IF "directbases" \in Deviations
  THEN {b \in {M.ct[n].bases[i] : i \in DOMAIN M.ct[n].bases} : M.ct[b].kind = "interface"}
  ELSE {a \in Ancestors(M, n) : M.ct[a].kind = "interface"}

\* all fields of a class, inherited first (dataclass order)
RECURSIVE AllFields(_, _)
AllFields(M, n) ==
  LET bs == M.ct[n].bases IN
  (IF bs = <<>> THEN <<>> ELSE AllFields(M, bs[1])) \o M.ct[n].fields
RECURSIVE AllResolvers(_, _)
AllResolvers(M, n) ==
  LET bs == M.ct[n].bases IN
  (IF bs = <<>> THEN <<>> ELSE AllResolvers(M, bs[1])) \o M.ct[n].resolvers

FName(f) == IF f.alias # "" THEN f.alias ELSE f.name
\* output fields of a class: flattened fields contribute the fields of their class
RECURSIVE OutFields(_, _)
OutFields(M, n) ==
  LET fs == AllFields(M, n)
      one(f) == IF f.flat THEN OutFields(M, f.t.n) ELSE << <<FName(f), Render(Ty(f.t, "out"))>> >>
      rs == AllResolvers(M, n)
  IN FlattenSeq([i \in DOMAIN fs |-> one(fs[i])]) \o [i \in DOMAIN rs |-> <<rs[i].name, Render(Ty(rs[i].ret, "out"))>>]
InFields(M, n) ==
  LET fs == AllFields(M, n) IN [i \in DOMAIN fs |-> <<FName(fs[i]), InField(fs[i].t, fs[i].def)>>]

\* the transitive-implementation rule of the GraphQL specification
ImplementsClosed(M, n) ==
  \A i \in InterfacesM(M, n) : InterfacesM(M, i) \subseteq InterfacesM(M, n)

---------------------------------------------------------------------------
\* ID encoding: IdEncode(s) = "i:" \o s; IdDecode is its inverse on the pool of plain identifiers and
\* RAISES on anything else (the harness's decoder raises ValueError on a string without the prefix)
IdPlain == {"abc", "x1", "1", "2", "3", "4", "u7"}
IdEncode(s) == "i:" \o s
IdCoded == {IdEncode(s) : s \in IdPlain}
IdDecode(e) == CHOOSE s \in IdPlain : IdEncode(s) = e
BadId == [k |-> "bad"]           \* a literal whose ID could not be decoded: never reaches deserialize
IsIdType(T) == T.k \in {"id", "uid"}

---------------------------------------------------------------------------
\* 2. EXECUTION: selecting every field

RECURSIVE GSer(_, _, _)
RECURSIVE GSerObj(_, _, _)
\* the fields of class n read on the instance v (v may be an instance of a subclass of n)
GSerObj(M, n, v) ==
  LET fs == AllFields(M, n)
      one(f) == IF f.flat THEN GSerObj(M, f.t.n, Get(v.f, f.name)).o
                ELSE << <<FName(f), GSer(M, f.t, Get(v.f, f.name))>> >>
      \* resolvers are fields too: every resolver that can be selected without argument (r.sel) contributes
      \* the serialization of its result -- r.v, or the attribute it returns ([k |-> "attr", n])
      rs == SelectSeq(AllResolvers(M, n), LAMBDA r : r.sel)
      rv(r) == IF r.v.k = "attr" THEN Get(v.f, r.v.n) ELSE r.v
  IN DObj(FlattenSeq([i \in DOMAIN fs |-> one(fs[i])]) \o [i \in DOMAIN rs |-> <<rs[i].name, GSer(M, rs[i].ret, rv(rs[i]))>>])
GSer(M, T, v) ==
  CASE T.k \in {"opt", "und"} -> IF v.k \in {"null", "undef"} THEN DNull ELSE GSer(M, T.e, v)
    [] T.k = "list" -> DArr([i \in DOMAIN v.a |-> GSer(M, T.e, v.a[i])])
    [] T.k = "enum" -> [k |-> "ename", m |-> v.m]          \* the NAME, through enum_aliaser
    [] T.k = "lit"  -> [k |-> "ename", m |-> v.s]          \* Literal values are their own names
    \* a concrete object type is what the annotation says, whatever subclass the value is an instance
    \* of (as serialize(T, v) does); behind an interface or a union the runtime class decides
    [] T.k = "obj"  -> IF M.ct[T.n].kind = "interface" THEN GSerObj(M, v.cls, v) ELSE GSerObj(M, T.n, v)
    [] T.k = "uni"  -> GSerObj(M, v.cls, v)
    [] IsIdType(T)  -> IF IdEnc THEN DStr(IdEncode(v.s)) ELSE v
    [] OTHER -> v

---------------------------------------------------------------------------
\* 3. ARGUMENTS

\* strict deserialization of an argument literal (what deserialize would do)
ArgOk(v) == [kind |-> "ok", v |-> v]
ArgErr   == [kind |-> "error", v |-> DNull]      \* GraphQL error, resolver NOT invoked
RECURSIVE ADeser(_, _, _)
RECURSIVE ADeserObj(_, _, _)
ADeserObj(M, n, d) ==
  LET fs == AllFields(M, n)
      val(f) == IF HasKey(d.o, FName(f)) THEN ADeser(M, f.t, Get(d.o, FName(f)))
                ELSE CASE f.def.k \in {"req", "reqval"} -> ArgErr            \* missing property, as deserialize says
                       [] f.def.k = "null"  -> ArgOk(DNull)
                       [] f.def.k = "undef" -> ArgOk(VUndef)
                       [] f.def.k = "unser" -> ArgOk([k |-> "unser"])
                       [] f.def.k = "val"   -> ArgOk(f.def.v)
      rs == [i \in DOMAIN fs |-> val(fs[i])]
  IN IF d.k # "obj" \/ ~(Keys(d.o) \subseteq {FName(fs[i]) : i \in DOMAIN fs}) \/ \E i \in DOMAIN rs : rs[i].kind = "error"
     THEN ArgErr ELSE ArgOk(VInst(n, [i \in DOMAIN fs |-> <<fs[i].name, rs[i].v>>]))
ADeser(M, T, d) ==
  CASE T.k = "int"   -> IF d.k = "int" THEN ArgOk(d) ELSE ArgErr
    [] T.k = "score" -> IF d.k = "int" THEN ArgOk(d) ELSE ArgErr
    [] T.k = "cint"  -> IF d.k = "int" /\ d.n >= 0 THEN ArgOk(d) ELSE ArgErr      \* schema(min=0): apischema's own validation
    [] T.k = "str"   -> IF d.k = "str" THEN ArgOk(d) ELSE ArgErr
    [] IsIdType(T)   -> IF d.k = "str" THEN ArgOk(d) ELSE ArgErr
    [] T.k = "bool"  -> IF d.k = "bool" THEN ArgOk(d) ELSE ArgErr
    \* every NAME of the enum is a GraphQL value, alias names included (two names of one member): they denote the member
    [] T.k = "enum"  -> IF d.k = "ename" /\ d.m \in M.enums[T.n]
                        THEN ArgOk(VEnum(T.n, IF d.m \in DOMAIN M.ealias THEN M.ealias[d.m] ELSE d.m)) ELSE ArgErr
    [] T.k = "lit"   -> IF d.k = "ename" /\ d.m \in {"x", "y"} THEN ArgOk(DStr(d.m)) ELSE ArgErr
    [] T.k = "opt"   -> IF d.k = "null" THEN ArgOk(DNull) ELSE ADeser(M, T.e, d)
    [] T.k = "und"   -> IF d.k = "null" THEN ArgErr ELSE ADeser(M, T.e, d)     \* null is not Undefined for deserialize
    [] T.k = "list"  -> IF d.k # "arr" THEN ArgErr
                        ELSE LET rs == [i \in DOMAIN d.a |-> ADeser(M, T.e, d.a[i])] IN
                             IF \E i \in DOMAIN rs : rs[i].kind = "error" THEN ArgErr
                             ELSE ArgOk(VList([i \in DOMAIN rs |-> rs[i].v]))
    [] T.k = "obj"   -> ADeserObj(M, T.n, d)

\* ID decoding of a supplied datum, along the type: what graphql-core's scalar ID does to every ID
\* position (parse_literal for literals, parse_value for variables) BEFORE apischema sees the datum
RECURSIVE DecodeIds(_, _, _)
DecodeIds(M, T, d) ==
  CASE IsIdType(T) -> IF d.k = "str" /\ IdEnc THEN (IF d.s \in IdCoded THEN DStr(IdDecode(d.s)) ELSE BadId) ELSE d
    [] T.k \in {"opt", "und"} -> IF d.k = "null" THEN d ELSE DecodeIds(M, T.e, d)
    [] T.k = "list" -> IF d.k # "arr" THEN d
                       ELSE LET xs == [i \in DOMAIN d.a |-> DecodeIds(M, T.e, d.a[i])] IN
                            IF \E i \in DOMAIN xs : xs[i] = BadId THEN BadId ELSE DArr(xs)
    [] T.k = "obj"  -> IF d.k # "obj" THEN d
                       ELSE LET fs == AllFields(M, T.n)
                                ft(key) == IF \E i \in DOMAIN fs : FName(fs[i]) = key
                                           THEN fs[CHOOSE i \in DOMAIN fs : FName(fs[i]) = key].t ELSE TInt
                                xs == [i \in DOMAIN d.o |-> <<d.o[i][1], DecodeIds(M, ft(d.o[i][1]), d.o[i][2])>>] IN
                            IF \E i \in DOMAIN xs : xs[i][2] = BadId THEN BadId ELSE DObj(xs)
    [] OTHER -> d
\* Layer M: the scalar built by graphql_schema.  ch \in {"lit", "var"}: the channel carrying the datum
ParsedM(M, T, d, ch) ==
  IF "idliteralraw" \in Deviations /\ ch = "lit" THEN d ELSE DecodeIds(M, T, d)

\* what the resolver receives for its parameter: a value, the Python default, or nothing at all
PyDefault == [kind |-> "default", v |-> DNull]
Supplies(ds) == {[k |-> "omitted"], [k |-> "given", d |-> DNull]} \cup {[k |-> "given", d |-> d] : d \in ds}

\* Layer R
\* p.eh \in {"unset", "none", "custom"}: the error_handler of the operation.  It handles the errors
\* of the RESOLVER; an invalid argument is a GraphQL error whatever the handler (ArgR does not read it).
ArgR(M, p, sup) ==
  IF sup.k = "omitted"
  THEN IF p.def.k = "req" THEN (IF IsOptional(p.t) THEN ArgOk(DNull) ELSE ArgErr) ELSE PyDefault
  ELSE IF sup.d.k = "null"
       THEN IF IsOptional(p.t) THEN ArgOk(DNull)
            ELSE IF p.def.k \in {"undef", "unser", "null"} THEN PyDefault   \* nullable only because the default cannot be shown
            ELSE ArgErr                                                    \* non-null in the schema: graphql-core rejects the query
       ELSE LET dd == DecodeIds(M, p.t, sup.d) IN IF dd = BadId THEN ArgErr ELSE ADeser(M, p.t, dd)

\* Layer M: graphql-core builds kwargs (argument given, or default_value injected), then resolve().
\* p.pos = "afterinfo": the parameter follows a GraphQLResolveInfo parameter in the signature; the
\* pinned tree stopped publishing arguments there (deviation "infobreak", repaired)
RECURSIVE HasEnum(_)
HasEnum(T) == CASE T.k = "enum" -> TRUE [] T.k \in {"opt", "und", "list"} -> HasEnum(T.e) [] OTHER -> FALSE
ArgM(M, p, sup, ch) ==
  LET nullableInSchema == IsNullable(p.t) \/ p.def.k \in {"null", "undef", "unser"}
      optParam == IsOptional(p.t) \/ p.def.k = "null"
      required == p.def.k = "req"
      inKwargs == sup.k = "given" \/ p.def.k = "val"
      value    == IF sup.k = "given" THEN sup.d ELSE [k |-> "injected"]
  IN IF "infobreak" \in Deviations /\ p.pos = "afterinfo"
     THEN (IF sup.k = "given" THEN ArgErr ELSE IF required THEN [kind |-> "crash", v |-> DNull] ELSE PyDefault)
     ELSE
     IF sup.k = "omitted" /\ required /\ ~nullableInSchema THEN ArgErr          \* query validation
     ELSE IF sup.k = "given" /\ sup.d.k = "null" /\ ~nullableInSchema THEN ArgErr
     ELSE IF inKwargs
          THEN IF value.k = "null" /\ (IF "nullskips" \in Deviations THEN ~required ELSE ~optParam) THEN PyDefault
               ELSE IF value.k = "injected"
                    THEN IF "enumdefault" \in Deviations /\ HasEnum(p.t) THEN [kind |-> "raw", v |-> DNull] ELSE PyDefault
                    ELSE LET pv == ParsedM(M, p.t, value, ch)
                             r == IF pv = BadId THEN ArgErr ELSE ADeser(M, p.t, pv) IN
                         \* deviation "ehcatchesargs" (seeded shape): the handler swallows the argument error
                         IF r.kind = "error" /\ "ehcatchesargs" \in Deviations /\ p.eh # "unset"
                         THEN [kind |-> "handled", v |-> DNull] ELSE r
          ELSE IF optParam /\ required THEN ArgOk(DNull) ELSE PyDefault

---------------------------------------------------------------------------
\* 4. RESOLVER OUTCOMES
\* r == [t, out : "ok" | "raise", v, eh : "unset" | "none" | "custom", mode, hmode : "sync" | "async"]
\* the custom handler of the pool is annotated -> int and returns HandlerValue
HandlerValue == DInt(0 - 1)
ResTy(r) == Render(IF r.eh = "none" THEN [Ty(r.t, "out") EXCEPT !.nn = FALSE] ELSE Ty(r.t, "out"))
ResErr == [kind |-> "error", v |-> DNull]
ResR(M, r) ==
  IF r.out = "ok" THEN ArgOk(GSer(M, r.t, r.v))
  ELSE CASE r.eh = "unset"  -> ResErr
         [] r.eh = "none"   -> ArgOk(DNull)
         [] r.eh = "custom" -> ArgOk(HandlerValue)
\* Layer M: resolve() -- try: serialize_result(func(..)) except: serialize_error(handler(..)); for an async
\* resolver func(..) only CREATES the coroutine
ResM(M, r) ==
  IF r.out = "raise" /\ r.mode = "async" /\ "asyncunhandled" \in Deviations THEN ResErr ELSE ResR(M, r)
=============================================================================
