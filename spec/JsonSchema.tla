------------------------------ MODULE JsonSchema -----------------------------
(***************************************************************************)
(* JSON Schema side of the specification (C06, C07, C17, C18).             *)
(*                                                                         *)
(* A schema S is a sequence of <<keyword, value>> pairs (an ordered JSON   *)
(* object), <<>> being the empty schema {}.  Two parts:                    *)
(*                                                                         *)
(*   SchemaOf(ctx, dir, T, cons)   Layer M: transcription of the keyword   *)
(*       emission of apischema.json_schema.schema.SchemaBuilder (type ->   *)
(*       keywords, Constraints.merge_into, _visited_union normal forms,    *)
(*       object() with flattened / pattern / additional fields,            *)
(*       DeserializationSchemaBuilder / SerializationSchemaBuilder         *)
(*       .properties for `required`).  References are kept abstract:       *)
(*       <<"$ref", cls>> for a class met again below itself.               *)
(*   Validates(ctx, S, d)          standard JSON Schema (2020-12)          *)
(*       semantics of exactly the keywords SchemaOf emits.                 *)
(*                                                                         *)
(* That Validates(SchemaOf(T), d) = Conforms(T, d) on the common domain is *)
(* the obligation of C06 (SchemaAgrees); that serialized data validates is *)
(* C07.  Patterns are ids (Matches comes from the string attributes).      *)
(* dir \in {"d", "s"}: deserialization / serialization schema.             *)
(***************************************************************************)
EXTENDS Serialization

\* boolean schemas: {} is <<>>; `false` is the schema with the single keyword "false"
FalseS == << <<"false", TRUE>> >>
TrueS  == <<>>
RECURSIVE IsUndefType(_)
IsUndefType(T) == CASE T.k = "annot" -> IsUndefType(T.t)
                    [] T.k = "union" -> \E i \in DOMAIN T.alts : T.alts[i] = TPrim("undef")
                    [] OTHER -> FALSE

KW(S, name)    == Get(S, name)
HasKW(S, name) == HasKey(S, name)
SetKW(S, name, val) == IF HasKey(S, name)
                       THEN [i \in DOMAIN S |-> IF S[i][1] = name THEN <<name, val>> ELSE S[i]]
                       ELSE Append(S, <<name, val>>)
DelKW(S, name) == SelectSeq(S, LAMBDA p : p[1] # name)

\* ---- Constraints.merge_into: constraint name -> keyword
ConsKeyword(n) == CASE n = "min" -> "minimum" [] n = "max" -> "maximum" [] n = "exc_min" -> "exclusiveMinimum"
                    [] n = "exc_max" -> "exclusiveMaximum" [] n = "mult_of" -> "multipleOf"
                    [] n = "min_len" -> "minLength" [] n = "max_len" -> "maxLength" [] n = "pattern" -> "pattern"
                    [] n = "min_items" -> "minItems" [] n = "max_items" -> "maxItems" [] n = "unique" -> "uniqueItems"
                    [] n = "min_props" -> "minProperties" [] n = "max_props" -> "maxProperties"
RECURSIVE MergeCons(_, _)
\* the constraints are merged into the schema as keywords (same-named ones keep the strongest)
MergeCons(S, cons) ==
  IF cons = <<>> THEN S
  ELSE LET c == Head(cons)  kw == ConsKeyword(c[1])
           merged == IF ~HasKW(S, kw) THEN c[2]
                     ELSE IF c[1] \in {"min", "exc_min", "min_len", "min_items", "min_props"} THEN Max(c[2], KW(S, kw))
                     ELSE IF c[1] \in {"max", "exc_max", "max_len", "max_items", "max_props"} THEN Min(c[2], KW(S, kw))
                     ELSE c[2]
       IN MergeCons(SetKW(S, kw, merged), Tail(cons))

JsonTypeOfPrim(p) == PrimJson(p)
TypeSet(S) == IF HasKW(S, "type") THEN KW(S, "type") ELSE {}

RECURSIVE SchemaOf(_, _, _, _, _)
RECURSIVE ObjSchema(_, _, _, _)

IsNullS(S) == Len(S) = 1 /\ S[1][1] = "type" /\ S[1][2] = {"null"}
\* _visited_union
UnionSchema(results) ==
  IF Len(results) = 1 THEN results[1]
  ELSE IF \E i \in DOMAIN results : Len(results[i]) = 0 THEN <<>>
  ELSE IF \A i \in DOMAIN results : Len(results[i]) = 1 /\ results[i][1][1] = "type"
    THEN << <<"type", UNION {results[i][1][2] : i \in DOMAIN results}>> >>
  ELSE IF Len(results) = 2 /\ (\A i \in DOMAIN results : HasKW(results[i], "type"))
          /\ \E i \in DOMAIN results : IsNullS(results[i])
    THEN LET r  == results[CHOOSE i \in DOMAIN results : ~IsNullS(results[i])]
             r2 == SetKW(r, "type", KW(r, "type") \cup {"null"}) IN
         \* null joins the allowed values too (deviation "nullenum": the pinned tree left enum / const alone)
         IF "null" \in KW(r, "type") THEN r
         ELSE IF HasKW(r2, "enum") THEN SetKW(r2, "enum", Append(KW(r2, "enum"), DNull))
         ELSE IF HasKW(r2, "const") THEN SetKW(DelKW(r2, "const"), "enum", <<KW(r2, "const"), DNull>>)
         ELSE r2
  ELSE << <<"anyOf", results>> >>

\* the JSON value of a typed default / literal (for enum / const): data are kept as data
LitTypes(vals) == {JsonKind(vals[i]) : i \in DOMAIN vals}

SchemaOf(ctx, dir, T, cons, seen) ==
  CASE T.k = "prim"    -> IF T.p = "undef" THEN <<>> ELSE MergeCons(<< <<"type", {JsonTypeOfPrim(T.p)}>> >>, cons)
    [] T.k = "any"     -> MergeCons(<<>>, cons)
    [] T.k = "newtype" -> SchemaOf(ctx, dir, T.sup, cons, seen)
    [] T.k = "annot"   -> SchemaOf(ctx, dir, T.t, T.cons \o cons, seen)
    [] T.k = "coll"    ->
         MergeCons(<< <<"type", {"array"}>>, <<"items", SchemaOf(ctx, dir, T.e, <<>>, seen)>> >>
                   \* for set-typed positions uniqueness is not part of the comparison (C06 statement):
                   \* emitted under its own name, which Validates ignores
                   \o (IF T.c \in {"set", "fset"}
                       THEN << <<IF ctx.O.setuniq THEN "uniqueItems" ELSE "uniqueItems(set)", TRUE>> >> ELSE <<>>), cons)
    [] T.k = "tuple"   ->
         MergeCons(<< <<"type", {"array"}>>,
                      <<"prefixItems", [i \in DOMAIN T.es |-> SchemaOf(ctx, dir, T.es[i], <<>>, seen)]>>,
                      <<"items", FalseS>>, <<"minItems", Len(T.es)>>, <<"maxItems", Len(T.es)>> >>, cons)
    [] T.k = "map"     ->
         LET key == SchemaOf(ctx, dir, T.kt, <<>>, seen)
             val == SchemaOf(ctx, dir, T.vt, <<>>, seen) IN
         MergeCons(IF HasKW(key, "pattern")
                     THEN << <<"type", {"object"}>>, <<"patternProperties", << <<KW(key, "pattern"), val>> >> >> >>
                     ELSE << <<"type", {"object"}>>, <<"additionalProperties", val>> >>, cons)
    [] T.k = "lit"     ->
         IF Len(T.vals) = 1 THEN << <<"type", LitTypes(T.vals)>>, <<"const", T.vals[1]>> >>
         ELSE << <<"type", LitTypes(T.vals)>>, <<"enum", T.vals>> >>
    [] T.k = "enum"    ->
         LET vals == [i \in DOMAIN ctx.En[T.cls] |-> ctx.En[T.cls][i][2]] IN
         IF Len(vals) = 1 THEN << <<"type", LitTypes(vals)>>, <<"const", vals[1]>> >>
         ELSE << <<"type", LitTypes(vals)>>, <<"enum", vals>> >>
    [] T.k = "union"   ->
         \* UndefinedType alternatives are unsupported and dropped; constraints go to every alternative
         LET alts == SelectSeq(T.alts, LAMBDA a : a # TPrim("undef")) IN
         UnionSchema([i \in DOMAIN alts |-> SchemaOf(ctx, dir, alts[i], cons, seen)])
    [] T.k = "dunion"  ->
         << <<"oneOf", [i \in DOMAIN T.alts |-> SchemaOf(ctx, dir, T.alts[i], cons, seen)]>>,
            <<"discriminator", Ali(ctx, T.alias)>> >>
    [] T.k = "obj"     ->
         \* the constraints met on the way stay next to the reference
         IF T.cls \in seen THEN MergeCons(<< <<"$ref", T.cls>> >>, cons)
         ELSE MergeCons(ObjSchema(ctx, dir, T.cls, seen \cup {T.cls}), cons)

\* required-ness of a field in the serialization schema: not ObjectField.skippable under the
\* (global) exclude_defaults / exclude_none
Skippable(ctx, f) ==
  \/ f.skip_if # ""
  \/ IsUndefType(f.type)
  \/ f.dk # "req" /\ (f.skip_default \/ ctx.O.exd)
  \/ f.nau
  \/ ctx.O.exn /\ IsOptType(f.type)
  \/ f.dk # "req" /\ f.dv.k = "undef"

ObjSchema(ctx, dir, cls, seen) ==
  LET K  == ctx.C[cls]
      fs == IF dir = "d" THEN DeserFields(K) ELSE SerFields(K)
      normal == SelectSeq(fs, LAMBDA f : IsNormal(f))
      fieldSchema(f) == SchemaOf(ctx, dir, FType(f), f.cons, seen)
      req(f) == IF dir = "d" THEN FRequired(f)
                ELSE IF K.kind = "typeddict" THEN FRequired(f) /\ ~Skippable(ctx, f) ELSE ~Skippable(ctx, f)
      props == [i \in DOMAIN normal |-> <<Ext(ctx, normal[i]), fieldSchema(normal[i])>>]
               \o (IF dir = "s" THEN [i \in DOMAIN K.smethods |->
                                        <<Ali(ctx, K.smethods[i].alias), SchemaOf(ctx, dir, K.smethods[i].rtype, <<>>, seen)>>]
                   ELSE <<>>)
      required == {Ext(ctx, normal[i]) : i \in {j \in DOMAIN normal : req(normal[j])}}
                  \cup (IF dir = "s" THEN {Ali(ctx, K.smethods[i].alias) :
                                             i \in {j \in DOMAIN K.smethods :
                                                     /\ ~IsUndefType(K.smethods[j].rtype)
                                                     /\ ~(ctx.O.exn /\ IsOptType(K.smethods[j].rtype))}}
                        ELSE {})
      flats  == SelectSeq(fs, LAMBDA f : f.flat)
      pats   == SelectSeq(fs, LAMBDA f : f.props = "pat")
      adds   == SelectSeq(fs, LAMBDA f : f.props = "add")
      valSchema(f) == SchemaOf(ctx, dir, Unwrap(FType(f)).vt, <<>>, seen)
      addl   == IF adds # <<>> THEN valSchema(adds[1])
                ELSE IF ctx.O.addl THEN TrueS ELSE FalseS
      depreq == [i \in DOMAIN K.depreq |->
                   <<Ext(ctx, CHOOSE f \in Range(K.fields) : f.name = K.depreq[i][1]),
                     {Ext(ctx, CHOOSE f \in Range(K.fields) : f.name = q) : q \in Range(K.depreq[i][2])}>>]
      \* json_schema() drops default-valued keywords: additionalProperties true is not emitted
      \* (which matters for unevaluatedProperties: an absent keyword evaluates nothing)
      main   == << <<"type", {"object"}>>, <<"properties", props>>, <<"required", required>> >>
                \o (IF Len(addl) = 0 THEN <<>> ELSE << <<"additionalProperties", addl>> >>)
                \o (IF pats = <<>> THEN <<>>
                    ELSE << <<"patternProperties", [i \in DOMAIN pats |-> <<pats[i].pat, valSchema(pats[i])>>]>> >>)
                \o (IF depreq = <<>> THEN <<>> ELSE << <<"dependentRequired", depreq>> >>)
      flatSchemas == [i \in DOMAIN flats |-> SchemaOf(ctx, dir, FType(flats[i]), flats[i].cons, seen)]
  IN IF flats = <<>> THEN main
     ELSE \* deviation "flatopen" is the repaired intent: the owner's branch must leave the keys of the
          \* flattened objects alone; the builder (and examples/flattened.py) emit additionalProperties
          \* false in every branch -- known finding F-flattened-schema
          << <<"allOf", <<main>> \o flatSchemas>>, <<"unevaluatedProperties", FalseS>> >>

---------------------------------------------------------------------------
\* ---- Validation (draft 2020-12 semantics of the emitted keywords)
JsonTypeOf(d) == JsonKind(d)
TypeOK(ts, d) == \/ JsonTypeOf(d) \in ts
                 \/ d.k = "int" /\ "number" \in ts
                 \/ d.k = "float" /\ d.h % 2 = 0 /\ "integer" \in ts      \* 1.0 is an integer for JSON Schema

RECURSIVE Validates(_, _, _, _)
RECURSIVE Evaluated(_, _, _, _)
\* JSON equality of instance and enum / const value
JsonEq(a, b) == DEq(a, b)

Validates(ctx, dir, S, d) ==
  /\ ~HasKW(S, "false")
  /\ HasKW(S, "$ref") => Validates(ctx, dir, ObjSchema(ctx, dir, KW(S, "$ref"), {KW(S, "$ref")}), d)
  /\ HasKW(S, "type") => TypeOK(KW(S, "type"), d)
  /\ HasKW(S, "const") => JsonEq(KW(S, "const"), d)
  /\ HasKW(S, "enum") => \E i \in DOMAIN KW(S, "enum") : JsonEq(KW(S, "enum")[i], d)
  /\ IsNum(d) =>
       /\ HasKW(S, "minimum") => Num2(d) >= KW(S, "minimum")
       /\ HasKW(S, "maximum") => Num2(d) <= KW(S, "maximum")
       /\ HasKW(S, "exclusiveMinimum") => Num2(d) > KW(S, "exclusiveMinimum")
       /\ HasKW(S, "exclusiveMaximum") => Num2(d) < KW(S, "exclusiveMaximum")
       /\ HasKW(S, "multipleOf") => Num2(d) % KW(S, "multipleOf") = 0
  /\ d.k = "str" =>
       /\ HasKW(S, "minLength") => Len(d.s) >= KW(S, "minLength")
       /\ HasKW(S, "maxLength") => Len(d.s) <= KW(S, "maxLength")
       /\ HasKW(S, "pattern") => Matches(ctx, d.s, KW(S, "pattern"))
  /\ d.k = "arr" =>
       /\ HasKW(S, "minItems") => Len(d.a) >= KW(S, "minItems")
       /\ HasKW(S, "maxItems") => Len(d.a) <= KW(S, "maxItems")
       /\ LET np == IF HasKW(S, "prefixItems") THEN Len(KW(S, "prefixItems")) ELSE 0 IN
            /\ \A i \in DOMAIN d.a : i <= np => Validates(ctx, dir, KW(S, "prefixItems")[i], d.a[i])
            /\ HasKW(S, "items") =>
                 \A i \in DOMAIN d.a : i > np =>
                    Validates(ctx, dir, KW(S, "items"), d.a[i])
       /\ HasKW(S, "uniqueItems") => Distinct(d.a)
  /\ d.k = "obj" =>
       /\ HasKW(S, "minProperties") => Len(d.o) >= KW(S, "minProperties")
       /\ HasKW(S, "maxProperties") => Len(d.o) <= KW(S, "maxProperties")
       /\ HasKW(S, "required") => KW(S, "required") \subseteq Keys(d.o)
       /\ HasKW(S, "dependentRequired") =>
            \A i \in DOMAIN KW(S, "dependentRequired") :
               KW(S, "dependentRequired")[i][1] \in Keys(d.o) => KW(S, "dependentRequired")[i][2] \subseteq Keys(d.o)
       /\ LET props == IF HasKW(S, "properties") THEN KW(S, "properties") ELSE <<>>
              pats  == IF HasKW(S, "patternProperties") THEN KW(S, "patternProperties") ELSE <<>> IN
            \A i \in DOMAIN d.o :
              LET key == d.o[i][1]  val == d.o[i][2]
                  byPat == {j \in DOMAIN pats : Matches(ctx, key, pats[j][1])} IN
              /\ HasKey(props, key) => Validates(ctx, dir, Get(props, key), val)
              /\ \A j \in byPat : Validates(ctx, dir, pats[j][2], val)
              /\ (~HasKey(props, key) /\ byPat = {} /\ HasKW(S, "additionalProperties")) =>
                    Validates(ctx, dir, KW(S, "additionalProperties"), val)
  /\ HasKW(S, "anyOf") => \E i \in DOMAIN KW(S, "anyOf") : Validates(ctx, dir, KW(S, "anyOf")[i], d)
  /\ HasKW(S, "oneOf") => Cardinality({i \in DOMAIN KW(S, "oneOf") : Validates(ctx, dir, KW(S, "oneOf")[i], d)}) = 1
  /\ HasKW(S, "allOf") => \A i \in DOMAIN KW(S, "allOf") : Validates(ctx, dir, KW(S, "allOf")[i], d)
  /\ (HasKW(S, "unevaluatedProperties") /\ d.k = "obj") =>
        \A i \in DOMAIN d.o : Evaluated(ctx, dir, S, d.o[i][1])

\* is a property name evaluated by properties / patternProperties / additionalProperties of S or
\* of its in-place applicators (allOf branches)
Evaluated(ctx, dir, S, key) ==
  \/ HasKW(S, "properties") /\ HasKey(KW(S, "properties"), key)
  \/ HasKW(S, "patternProperties") /\ \E j \in DOMAIN KW(S, "patternProperties") : Matches(ctx, key, KW(S, "patternProperties")[j][1])
  \/ HasKW(S, "additionalProperties")
  \/ HasKW(S, "allOf") /\ \E i \in DOMAIN KW(S, "allOf") : Evaluated(ctx, dir, KW(S, "allOf")[i], key)
  \/ HasKW(S, "$ref") /\ Evaluated(ctx, dir, ObjSchema(ctx, dir, KW(S, "$ref"), {KW(S, "$ref")}), key)
=============================================================================
