----------------------------- MODULE Validators -----------------------------
(***************************************************************************)
(* C10 -- validator scheduling while deserializing an object.              *)
(*                                                                         *)
(* Implementation-shaped state machine mirroring                           *)
(*   ObjectMethod.deserialize  (field loop, gating on values/field_errors) *)
(*   validation.validators.validate (ordering, discard, merge)             *)
(* and the reference rule of the property (Layer R) it must refine.        *)
(*                                                                         *)
(* The case is built by the first actions (AddField / AddVal), so that TLC *)
(* enumerates every class shape x datum x outcome vector exhaustively for  *)
(* small bounds and samples them with -simulate for larger ones:           *)
(*   case == [fields : Seq([name, alias, req, st]),                        *)
(*            vals   : Seq([name, deps, fld, disc, style, out])]           *)
(*  st    = "absent" | "valid" | "invalid": what the datum holds for it    *)
(*  deps  = field names the validator depends on (attributes read on self, *)
(*          through methods / properties, plus init parameters)            *)
(*  fld   = "" or the field the validator is attached to (validator(field))*)
(*  disc  = fields discarded when it fails ({fld} by default)              *)
(*  style = "raise" | "yield" | "yieldpath" (error yielded with the alias  *)
(*          of its first dependency as path)                               *)
(*  out   = "pass" | "fail"                                                *)
(*                                                                         *)
(* Deviation "selfrerun" reproduces validate()'s `validators[i:]` slip of  *)
(* the pinned tree (repaired by a fix: commit): the failing validator is   *)
(* kept in the list re-validated after a discard.                          *)
(* Deviation "depreqvalid" (seeded shape): a field missing because of     *)
(* dependent_required is not counted among the invalid fields.             *)
(* Deviation "aliasgate" reproduces the gating of the pinned tree on       *)
(* field_errors keyed by ALIAS while dependencies are NAMES.               *)
(*                                                                         *)
(* case.maxp: an OBJECT-LEVEL constraint, @schema(max_props=maxp) on the    *)
(* class (0: none).  Its violation is a structural error at the root of    *)
(* the object, collected BEFORE the field loop; like any error it prevents *)
(* the construction and is merged with the validators' errors, but it      *)
(* gates no validator (no field is invalid).  Deviation "rooterrdropped"   *)
(* (seeded shape): with no field error the root errors are forgotten.      *)
(*                                                                         *)
(* case.ext: validators that are NOT bound to the class -- given through   *)
(* field metadata of an enclosing object, through Annotated[K, validators] *)
(* or through deserialize(..., validators=[...]) (case.extmode says which).*)
(* They have no dependencies: they validate the built object as a whole,   *)
(* hence run (all of them, in order) iff the object was built without any  *)
(* error, class validators included (phase "external").  Deviation         *)
(* "extdropped" reproduces the pinned tree, where such validators went     *)
(* through the dependency gate of ObjectMethod and therefore never ran.    *)
(***************************************************************************)
EXTENDS Naturals, Sequences, FiniteSets, TLC

CONSTANTS MaxF, MaxV,      \* bounds on fields / validators of a case
          Rich,            \* BOOLEAN: full option sets (FALSE: the reduced sets of the quick tier)
          StSet,           \* statuses a field may take in the datum (subset of absent/valid/invalid)
          ExtOn,           \* BOOLEAN: cases with validators not bound to the class (case.ext)
          Deviations

VARIABLES case,       \* the case under construction, then fixed
          phase,      \* "build" | "fields" | "gate" | "validate" | "external" | "done"
          fi,         \* index of the next field to deserialize
          provided,   \* names of the fields deserialized without error (values.keys())
          ferr,       \* names of the fields with a structural error
          pending,    \* validators still to be considered, in order
          errs,       \* set of <<loc, rule>> collected so far
          ran,        \* history: validators executed, in order
          constructed \* number of constructor calls
vars == <<case, phase, fi, provided, ferr, pending, errs, ran, constructed>>

NamePool == <<"a", "b", "c", "d">>
Upper(n) == CASE n = "a" -> "A" [] n = "b" -> "B" [] n = "c" -> "C" [] n = "d" -> "D"
VNames   == <<"v1", "v2", "v3", "v4">>
XNames   == <<"x1", "x2">>
\* "recref": the validators sit on the BACK-REFERENCE of a recursive class (Annotated["R", validators(..)] inside R,
\* compiled lazily through the recursion placeholder) whose node holds the object
ExtModes == {"arg", "annotated", "field", "recref"}

Fields == case.fields
Vals   == case.vals
FieldNames == {Fields[i].name : i \in DOMAIN Fields}
FieldByName(n) == Fields[CHOOSE i \in DOMAIN Fields : Fields[i].name = n]
AliasOf(n) == FieldByName(n).alias
ValByName(n) == Vals[CHOOSE i \in DOMAIN Vals : Vals[i].name = n]
FirstDep(v) == Fields[CHOOSE i \in DOMAIN Fields :
                        Fields[i].name \in v.deps /\ \A j \in 1..(i - 1) : Fields[j].name \notin v.deps].name

\* ---- errors
\* case.depreq: dependent_required({a: [b]}) -- b is "missing" when a is in the datum and b is not.
\* Such a field is in error like any other (deviation "depreqvalid", seeded shape: it is not counted
\* among the invalid fields, so validators reading it run on its default)
DepMissing(f) == /\ case.depreq /\ f.name = "b" /\ f.st = "absent"
                 /\ Len(case.fields) >= 2 /\ case.fields[1].st # "absent"
StructErr(f) == IF f.st = "invalid" THEN {<< <<f.alias>>, "type:integer" >>}
                ELSE IF f.st = "absent" /\ (f.req \/ DepMissing(f)) THEN {<< <<f.alias>>, "missing" >>}
                ELSE {}
ValErr(v) ==
  LET own  == IF v.style = "yieldpath" /\ v.deps # {} THEN <<AliasOf(FirstDep(v))>> ELSE <<>>
      base == IF v.fld = "" THEN own ELSE <<AliasOf(v.fld)>> \o own
  \* a "yieldpath" validator yields TWO errors under the same (scalar) path: both are reported
  IN {<< base, "validator:" \o v.name >>}
       \cup (IF v.style = "yieldpath" /\ v.deps # {} THEN {<< base, "validator:" \o v.name \o ":2" >>} ELSE {})

\* the properties present in the datum (valid or not) against @schema(max_props=c.maxp)
RootErrOf(c) == IF c.maxp > 0 /\ Cardinality({i \in DOMAIN c.fields : c.fields[i].st # "absent"}) > c.maxp
                THEN {<< <<>>, "maxProperties" >>} ELSE {}

---------------------------------------------------------------------------
\* ---- construction of the case
Init == /\ case = [fields |-> <<>>, vals |-> <<>>, depreq |-> FALSE, ext |-> <<>>, extmode |-> "arg", maxp |-> 0]
        /\ phase = "build" /\ fi = 1 /\ provided = {} /\ ferr = {}
        /\ pending = <<>> /\ errs = {} /\ ran = <<>> /\ constructed = 0

AddField ==
  /\ phase = "build" /\ Len(case.fields) < MaxF /\ case.vals = <<>>
  /\ LET n == NamePool[Len(case.fields) + 1] IN
     \E al \in {n, Upper(n)}, rq \in BOOLEAN, st \in StSet :
        /\ (Rich \/ ((al = n \/ n = "a") /\ (~rq \/ n = "a")))
        \* Python's own rule: no field without default after a field with a default
        /\ rq => \A i \in DOMAIN case.fields : case.fields[i].req
        /\ case' = [case EXCEPT !.fields = Append(@, [name |-> n, alias |-> al, req |-> rq, st |-> st])]
  /\ UNCHANGED <<phase, fi, provided, ferr, pending, errs, ran, constructed>>

DiscOptions(names) ==
  IF Rich THEN {<<"none">>, <<"default">>} \cup {<<"set", S>> : S \in SUBSET names \ {{}}}
  ELSE {<<"none">>, <<"default">>} \cup {<<"set", {n}>> : n \in names}
DiscOf(opt, fld) == CASE opt[1] = "none"    -> {}
                      [] opt[1] = "default" -> IF fld = "" THEN {} ELSE {fld}
                      [] OTHER              -> opt[2]

AddVal ==
  /\ phase = "build" /\ case.fields # <<>> /\ Len(case.vals) < MaxV
  /\ LET vn == VNames[Len(case.vals) + 1]
         names == {case.fields[i].name : i \in DOMAIN case.fields} IN
     \E deps \in SUBSET names, fld \in names \cup {""}, opt \in DiscOptions(names),
        style \in {"raise", "yield", "yieldpath"}, out \in {"pass", "fail"} :
        /\ (Rich \/ (deps # {} /\ style = (CASE vn = "v1" -> "raise" [] vn = "v2" -> "yield" [] OTHER -> "yieldpath")))
        /\ opt[1] = "default" => fld # ""
        /\ fld # "" => fld \in deps           \* a field validator reads its field
        /\ case' = [case EXCEPT !.vals = Append(@, [name |-> vn, deps |-> deps, fld |-> fld,
                                                     disc |-> DiscOf(opt, fld), style |-> style, out |-> out])]
  /\ UNCHANGED <<phase, fi, provided, ferr, pending, errs, ran, constructed>>

\* an unbound validator has the shape of a class validator without dependencies
ExtVal(i, style, out) == [name |-> XNames[i], deps |-> {}, fld |-> "", disc |-> {}, style |-> style, out |-> out]
ExtOptions ==
  IF ~ExtOn THEN {<<>>}
  ELSE IF Rich THEN {<<>>} \cup {<<ExtVal(1, st, o)>> : st \in {"raise", "yield"}, o \in {"pass", "fail"}}
                      \cup {<<ExtVal(1, s1, o1), ExtVal(2, s2, o2)>> :
                               s1 \in {"raise", "yield"}, s2 \in {"raise", "yield"}, o1 \in {"pass", "fail"}, o2 \in {"pass", "fail"}}
  ELSE {<<>>, <<ExtVal(1, "raise", "pass")>>, <<ExtVal(1, "yield", "fail")>>,
        <<ExtVal(1, "raise", "fail"), ExtVal(2, "yield", "fail")>>, <<ExtVal(1, "yield", "pass"), ExtVal(2, "raise", "fail")>>}

StartCase == /\ phase = "build" /\ case.fields # <<>> /\ case.vals # <<>>
             /\ phase' = "fields"
             \* dependent_required({a: [b]}) needs two optional fields
             /\ \E dr \in BOOLEAN, ex \in ExtOptions, em \in ExtModes, mp \in {0, 1} :
                   /\ dr => (Len(case.fields) >= 2 /\ ~case.fields[1].req /\ ~case.fields[2].req)
                   /\ (ex = <<>> => em = "arg")
                   /\ mp > 0 => (Len(case.fields) >= 2 /\ ~dr /\ ex = <<>>)
                   /\ case' = [case EXCEPT !.depreq = dr, !.ext = ex, !.extmode = em, !.maxp = mp]
                   \* the object-level constraints are checked first
                   /\ errs' = RootErrOf([case EXCEPT !.maxp = mp])
             /\ UNCHANGED <<fi, provided, ferr, pending, ran, constructed>>

---------------------------------------------------------------------------
\* ---- Layer M: the code's steps

\* one iteration of the field loop of ObjectMethod.deserialize
DeserField ==
  /\ phase = "fields" /\ fi <= Len(Fields)
  /\ LET f == Fields[fi] IN
       /\ provided' = IF f.st = "valid" THEN provided \cup {f.name} ELSE provided
       /\ ferr'     = IF StructErr(f) # {} /\ ~("depreqvalid" \in Deviations /\ DepMissing(f) /\ ~f.req)
                      THEN ferr \cup {f.name} ELSE ferr
       /\ errs'     = errs \cup StructErr(f)
  /\ fi' = fi + 1
  /\ UNCHANGED <<case, phase, pending, ran, constructed>>

EndFields == /\ phase = "fields" /\ fi > Len(Fields)
             /\ phase' = "gate"
             /\ UNCHANGED <<case, fi, provided, ferr, pending, errs, ran, constructed>>

\* `validators = [v for v in self.validators if not v.dependencies.isdisjoint(values)]`
\* then, when there are structural errors, only those disjoint from the invalid fields
InvalidForGate == IF "aliasgate" \in Deviations THEN {AliasOf(n) : n \in ferr} ELSE ferr
Gate ==
  /\ phase = "gate"
  /\ pending' = SelectSeq(Vals, LAMBDA v : v.deps \cap provided # {} /\ v.deps \cap InvalidForGate = {})
  \* deviation "rooterrdropped": `if field_errors:` instead of `if field_errors or errors:`
  /\ errs' = IF "rooterrdropped" \in Deviations /\ ferr = {} THEN {} ELSE errs
  /\ constructed' = IF errs' = {} THEN 1 ELSE 0       \* constructor.construct(values) before validate
  /\ phase' = "validate"
  /\ UNCHANGED <<case, fi, provided, ferr, ran>>

\* one iteration of validate(): run the head validator
Run ==
  /\ phase \in {"validate", "external"} /\ pending # <<>>
  /\ LET v == Head(pending) IN
       /\ ran' = Append(ran, v.name)
       /\ IF v.out = "pass"
            THEN /\ pending' = Tail(pending) /\ UNCHANGED errs
            ELSE /\ errs' = errs \cup ValErr(v)
                 /\ pending' =
                      IF v.disc = {} THEN Tail(pending)
                      ELSE SelectSeq(IF "selfrerun" \in Deviations THEN pending ELSE Tail(pending),
                                     LAMBDA w : w.deps \cap v.disc = {})
  /\ UNCHANGED <<case, phase, fi, provided, ferr, constructed>>

\* ValidatorMethod around the object's method: validate(built object, unbound validators)
GoesExt == case.ext # <<>> /\ errs = {} /\ "extdropped" \notin Deviations
Finish == /\ phase = "validate" /\ pending = <<>>
          /\ IF GoesExt THEN phase' = "external" /\ pending' = case.ext
                        ELSE phase' = "done" /\ UNCHANGED pending
          /\ UNCHANGED <<case, fi, provided, ferr, errs, ran, constructed>>
FinishExt == /\ phase = "external" /\ pending = <<>>
             /\ phase' = "done"
             /\ UNCHANGED <<case, fi, provided, ferr, pending, errs, ran, constructed>>

Steps == DeserField \/ EndFields \/ Gate \/ Run \/ Finish \/ FinishExt
Next == AddField \/ AddVal \/ StartCase \/ Steps \/ (phase = "done" /\ UNCHANGED vars)
Spec == Init /\ [][Next]_vars
FairSpec == Spec /\ WF_vars(Steps)

\* the call log is a history variable: hidden when termination is checked, so that the
\* state graph stays finite and a non-shrinking `pending` is a lasso
ViewNoHistory == <<case, phase, fi, provided, ferr, pending, errs, constructed>>

---------------------------------------------------------------------------
\* ---- Layer R: the rule stated by the property
AllProvided == {f \in FieldNames : FieldByName(f).st = "valid"}
AllInvalid  == {f \in FieldNames : StructErr(FieldByName(f)) # {}}
AllStructErr == RootErrOf(case) \cup UNION {StructErr(Fields[i]) : i \in DOMAIN Fields}

RECURSIVE RefRun(_, _, _)
\* validators that must run, in declaration order, given the discarded set so far
RefRun(i, discarded, acc) ==
  IF i > Len(Vals) THEN acc
  ELSE LET v == Vals[i]
           runs == /\ v.deps \cap AllProvided # {}      \* at least one dependency provided
                   /\ v.deps \cap AllInvalid = {}       \* every dependency deserialized without error
                   /\ v.deps \cap discarded = {}        \* none discarded by an earlier failing validator
       IN IF ~runs THEN RefRun(i + 1, discarded, acc)
          ELSE RefRun(i + 1, IF v.out = "fail" THEN discarded \cup v.disc ELSE discarded, Append(acc, v.name))
RefClassRan  == RefRun(1, {}, <<>>)
RefClassErrs == AllStructErr
                \cup UNION {ValErr(ValByName(RefClassRan[i])) :
                              i \in {j \in DOMAIN RefClassRan : ValByName(RefClassRan[j]).out = "fail"}}
\* unbound validators see the finished object: all of them run iff it was built without error
RefExtRuns == RefClassErrs = {}
RefRan  == RefClassRan \o (IF RefExtRuns THEN [i \in DOMAIN case.ext |-> case.ext[i].name] ELSE <<>>)
RefErrs == RefClassErrs
           \cup (IF RefExtRuns THEN UNION {ValErr(case.ext[i]) : i \in {j \in DOMAIN case.ext : case.ext[j].out = "fail"}}
                  ELSE {})

\* ---- what TLC decides
RunIff     == phase = "done" => ran = RefRan            \* exactly the runnable validators, in order
AtMostOnce == \A i, j \in DOMAIN ran : i # j => ran[i] # ran[j]
MergedOnce == phase = "done" => errs = RefErrs
\* the constructor is called at most once, and only when there is no structural error;
\* the instance is returned only when there is no error at all
ConstructRule == phase = "done" => (constructed = 1) = (AllStructErr = {})
Returned      == phase = "done" /\ errs = {}
Termination   == (phase = "fields") ~> (phase = "done")
=============================================================================
